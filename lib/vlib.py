"""Common machinery for the /verif checks (stdlib only).

build       : incremental rebuild of /repo (+ harness drivers) into /verif/build/<variant>
tlc         : run TLC on a spec with its own metadir, parse the summary and @@CASE lines
Evidence    : writes /verif/evidence/<id>.json per EVIDENCE.schema.json
Findings    : known_findings.json handling (KNOWN-FINDING lines, fixed entries suppress nothing)
Reporter    : collects violations, prints VIOLATION lines, decides the exit code
"""
import fcntl
import hashlib
import json
import os
import re
import shutil
import subprocess
import sys
import time

ROOT = os.path.dirname(os.path.dirname(os.path.abspath(__file__)))
REPO = os.environ.get("VERIF_REPO", "/repo")
BUILD = os.environ.get("VERIF_BUILD", os.path.join(ROOT, "build"))
SPEC = os.path.join(ROOT, "spec")
HARNESS = os.path.join(ROOT, "harness")
# VERIF_OUT redirects evidence and replay files (used when the checks are pointed at a scratch copy of the repository,
# e.g. to try a seeded change: VERIF_REPO=/tmp/x VERIF_BUILD=/tmp/xb VERIF_OUT=/tmp/xo bin/check C10)
_OUT = os.environ.get("VERIF_OUT", ROOT)
EVIDENCE = os.path.join(_OUT, "evidence")
REPLAYS = os.path.join(_OUT, "replays")
GUARD = "GMGPOLAR_VERIF"
NCPU = os.cpu_count() or 4


class HarnessError(Exception):
    """Model/harness failure: exit 2, never a verdict."""


def seed():
    try:
        return int(os.environ.get("VERIF_SEED", "1"))
    except ValueError:
        return 1


def log(*a):
    print("[verif]", *a, file=sys.stderr, flush=True)


def sh(cmd, timeout=1800, env=None, cwd=None, check=False, stdin=None):
    e = dict(os.environ)
    if env:
        e.update(env)
    t0 = time.time()
    try:
        p = subprocess.run(cmd, shell=isinstance(cmd, str), cwd=cwd, env=e, timeout=timeout,
                           stdout=subprocess.PIPE, stderr=subprocess.STDOUT, input=stdin,
                           text=True, errors="replace")
        rc, out = p.returncode, p.stdout
    except subprocess.TimeoutExpired as ex:
        rc, out = 124, (ex.stdout or "") if isinstance(ex.stdout, str) else ""
        out += "\n[timeout after %ss]" % timeout
    if check and rc != 0:
        raise HarnessError("command failed (%s): %s\n%s" % (rc, cmd, out[-4000:]))
    return rc, out, time.time() - t0


# ----------------------------------------------------------------------------------------------
# build

VARIANTS = {
    # name: (CXX, extra flags)
    "gcc": ("g++", "-O1 -g0"),
    "clang": ("clang++", "-O1 -g0"),
    "asan": ("g++", "-O1 -g -fsanitize=address,undefined -fno-omit-frame-pointer -fno-sanitize-recover=undefined"),
    # guard off, NDEBUG on: what a user builds
    "release": ("g++", "-O2 -g0 -DNDEBUG"),
}


def _lock(name):
    os.makedirs(BUILD, exist_ok=True)
    f = open(os.path.join(BUILD, ".lock." + name), "w")
    fcntl.flock(f, fcntl.LOCK_EX)
    return f


def build(targets, variant="gcc", guard=True):
    """(Re)build harness targets (and the repo libraries they link) from /repo's working tree.
    Returns the directory holding the executables."""
    cxx, flags = VARIANTS[variant]
    bdir = os.path.join(BUILD, variant)
    if guard and variant != "release":
        flags += " -D%s -UNDEBUG -D_GLIBCXX_ASSERTIONS" % GUARD
    lk = _lock(variant)
    try:
        os.makedirs(bdir, exist_ok=True)
        cfg = ["cmake", "-S", HARNESS, "-B", bdir, "-G", "Ninja", "-DCMAKE_BUILD_TYPE=None",
               "-DCMAKE_CXX_COMPILER=" + cxx, "-DCMAKE_CXX_FLAGS=" + flags,
               "-DVERIF_REPO=" + REPO, "-DGMGPOLAR_BUILD_TESTS=OFF"]
        rc, out, _ = sh(cfg, timeout=600)
        if rc != 0:
            raise HarnessError("cmake configure failed:\n" + out[-3000:])
        if isinstance(targets, str):
            targets = [targets]
        rc, out, dt = sh(["ninja", "-C", bdir, "-j", str(NCPU)] + list(targets), timeout=3000)
        if rc != 0:
            raise HarnessError("build failed (%s):\n%s" % (variant, out[-6000:]))
        log("build %s %s ok (%.1fs)" % (variant, " ".join(targets), dt))
    finally:
        lk.close()
    return bdir


# ----------------------------------------------------------------------------------------------
# TLC

TLC_JAR = "/opt/veriftools/tla/tla2tools.jar"


def _community_cp():
    # the `tlc` wrapper script knows the classpath; reuse it if it is a shell script
    try:
        txt = open(shutil.which("tlc")).read()
        m = re.search(r"-cp\s+(\S+)", txt)
        if m:
            return m.group(1).strip('"')
    except Exception:
        pass
    return TLC_JAR


class TlcResult:
    def __init__(self):
        self.rc = None
        self.out = ""
        self.generated = 0
        self.distinct = 0
        self.depth = 0
        self.cases = []
        self.wall = 0.0
        self.violation = None  # name of violated invariant/property, if any
        self.coverage = {}

    @property
    def ok(self):
        return self.rc == 0


def tlc(module, cfg=None, workers=None, simulate=None, depth=None, env=None, timeout=1500,
        heap="8g", extra=None, deadlock=False, tag=None, coverage=False, dfs_queue=False, stack=None):
    """Run TLC on spec/<module>.tla with spec/<cfg>. Returns TlcResult. rc: 0 ok, 12 invariant
    violated, 13 property violated, 11 deadlock, anything else = harness error."""
    mod = module if module.endswith(".tla") else module + ".tla"
    mpath = mod if os.path.isabs(mod) else os.path.join(SPEC, mod)
    sdir = os.path.dirname(mpath)
    cfgp = cfg or (os.path.splitext(os.path.basename(mpath))[0] + ".cfg")
    if not os.path.isabs(cfgp):
        cfgp = os.path.join(sdir, cfgp)
    tag = tag or (os.path.splitext(os.path.basename(cfgp))[0])
    meta = os.path.join(BUILD, "tlc", "%s.%d.%d" % (tag, os.getpid(), int(time.time() * 1000) % 100000))
    os.makedirs(meta, exist_ok=True)
    w = str(workers or min(NCPU, 16))
    jopts = ["-XX:+UseParallelGC", "-Xmx" + heap]
    if stack:
        jopts.append("-Xss" + stack)   # deeply nested values (terms) need a deep Java stack
    if dfs_queue:
        jopts.append("-Dtlc2.tool.queue.IStateQueue=StateDeque")
    cmd = ["java"] + jopts + ["-cp", _community_cp(), "tlc2.TLC", "-workers", w, "-metadir", meta,
                              "-config", cfgp, "-noGenerateSpecTE"]
    if not deadlock:
        cmd.append("-deadlock")  # -deadlock = do NOT check deadlock
    if simulate:
        cmd += ["-simulate", "num=%d" % simulate, "-seed", str(seed())]
        if depth:
            cmd += ["-depth", str(depth)]
    if coverage:
        cmd += ["-coverage", "1"]
    if extra:
        cmd += extra
    cmd.append(mpath)
    r = TlcResult()
    r.rc, r.out, r.wall = sh(cmd, timeout=timeout, env=env, cwd=sdir)
    shutil.rmtree(meta, ignore_errors=True)
    for line in r.out.splitlines():
        if line.startswith('"@@CASE '):
            try:
                s = json.loads(line)
                r.cases.append(json.loads(s[len("@@CASE "):]))
            except Exception as ex:  # pragma: no cover
                raise HarnessError("cannot parse case line: %r (%s)" % (line[:200], ex))
        m = re.match(r"(\d+) states generated, (\d+) distinct states found", line)
        if m:
            r.generated, r.distinct = int(m.group(1)), int(m.group(2))
        m = re.match(r"The depth of the complete state graph search is (\d+)", line)
        if m:
            r.depth = int(m.group(1))
        m = re.match(r"Error: Invariant (\S+) is violated", line)
        if m:
            r.violation = m.group(1)
        m = re.match(r"Error: Action property (\S+) is violated", line)
        if m:
            r.violation = m.group(1)
        m = re.match(r"Error: Temporal properties were violated", line)
        if m:
            r.violation = "temporal"
        m = re.match(r"<(\w+) line \d+, col \d+ to line \d+, col \d+ of module \w+>: (\d+):(\d+)", line)
        if m:
            r.coverage[m.group(1)] = (int(m.group(2)), int(m.group(3)))
    if simulate and r.generated == 0:
        m = re.search(r"(\d+) states checked", r.out)
        if m:
            r.generated = int(m.group(1))
    return r


def tlc_must_hold(r, what):
    """TLC run that is expected to finish without error; otherwise harness error or violation."""
    if r.rc == 0:
        return True
    if r.rc in (12, 13) and r.violation:
        return False
    raise HarnessError("TLC failed on %s (rc=%s):\n%s" % (what, r.rc, r.out[-5000:]))


def counterexample(r):
    """Text of the TLC error trace (from 'Error:' on)."""
    i = r.out.find("Error:")
    return r.out[i:] if i >= 0 else r.out[-4000:]


def sany(module):
    mpath = os.path.join(SPEC, module if module.endswith(".tla") else module + ".tla")
    rc, out, _ = sh(["java", "-cp", _community_cp(), "tla2sany.SANY", mpath], timeout=120,
                    cwd=os.path.dirname(mpath))
    if rc != 0 or "Semantic errors" in out or "Parse Error" in out or "*** Errors" in out:
        raise HarnessError("SANY failed on %s:\n%s" % (module, out[-3000:]))


# ----------------------------------------------------------------------------------------------
# known findings

class Findings:
    def __init__(self):
        p = os.path.join(ROOT, "known_findings.json")
        self.entries = json.load(open(p))["findings"] if os.path.exists(p) else []

    def known(self, prop, key):
        for e in self.entries:
            if e["property"] == prop and e["key"] == key and e.get("status") == "known":
                return e
        return None


# ----------------------------------------------------------------------------------------------
# reporting

class Reporter:
    """Collects what a check run found. A violation carries a *key* naming the specific failing input
    class / call site / history; keys listed as `known` in known_findings.json are printed as
    KNOWN-FINDING and do not fail the check."""

    def __init__(self, prop, tier, level):
        self.prop, self.tier, self.level = prop, tier, level
        self.t0 = time.time()
        self.findings = Findings()
        self.violations = []
        self.known_hits = {}
        self.cov = {"samples": []}
        self.assumptions = []
        self._distinct = set()
        self.evals = 0

    # -- coverage bookkeeping
    def add_tlc(self, r, label=None):
        self.cov["states"] = self.cov.get("states", 0) + r.distinct
        self.cov["transitions"] = self.cov.get("transitions", 0) + r.generated
        runs = self.cov.setdefault("tlc_runs", [])
        runs.append({"config": label, "generated": r.generated, "distinct": r.distinct,
                     "depth": r.depth, "wall_s": round(r.wall, 1)})
        if r.coverage:
            self.cov.setdefault("action_coverage", {}).update(
                {("%s:%s" % (label, k)): "%d:%d" % v for k, v in r.coverage.items()})

    def case(self, key=None, nontrivial=True):
        """count one evaluated case; key identifies distinctness."""
        self.evals += 1
        if nontrivial and key is not None:
            self._distinct.add(key if isinstance(key, (str, int, tuple)) else json.dumps(key, sort_keys=True))

    def sample(self, s, limit=6):
        if len(self.cov["samples"]) < limit:
            self.cov["samples"].append(s)

    def traces(self, n=1):
        self.cov["traces_validated_against_impl"] = self.cov.get("traces_validated_against_impl", 0) + n

    # -- verdicts
    def violation(self, key, what, replay=None):
        k = self.findings.known(self.prop, key)
        if k is not None:
            self.known_hits.setdefault(key, what)
            return False
        self.violations.append({"key": key, "what": what, "replay": replay})
        return True

    def finish(self):
        os.makedirs(EVIDENCE, exist_ok=True)
        os.makedirs(REPLAYS, exist_ok=True)
        for key, what in self.known_hits.items():
            print("KNOWN-FINDING: property=%s %s -- %s" % (self.prop, key, str(what)[:300]))
        seen = set()
        for i, v in enumerate(self.violations):
            if v["key"] in seen:
                continue
            seen.add(v["key"])
            path = os.path.join(REPLAYS, "%s-%s-%d.json" % (self.prop, self.tier, len(seen)))
            with open(path, "w") as f:
                json.dump({"property": self.prop, "key": v["key"], "what": v["what"], "replay": v["replay"],
                           "tier": self.tier, "seed": seed()}, f, indent=1, default=str)
            print("VIOLATION property=%s replay=%s" % (self.prop, path))
            print("  key=%s: %s" % (v["key"], str(v["what"])[:600]))
        cov = dict(self.cov)
        cov["evaluations"] = max(self.evals, cov.get("evaluations", 0))
        cov["distinct_nontrivial"] = len(self._distinct)
        cov.setdefault("traces_validated_against_impl", 0)
        cov.setdefault("states", 0)
        cov.setdefault("transitions", 0)
        cov["known_findings_reobserved"] = sorted(self.known_hits)
        ev = {"property_id": self.prop, "tier": self.tier, "seed": seed(), "level": self.level,
              "coverage": cov, "assumptions": self.assumptions, "wall_s": round(time.time() - self.t0, 2),
              "violations": len(seen)}
        with open(os.path.join(EVIDENCE, self.prop + ".json"), "w") as f:
            json.dump(ev, f, indent=1, default=str)
        return 1 if seen else 0


def run_driver(exe, args=(), stdin=None, timeout=900, env=None):
    """Run a harness executable; returns (rc, list of parsed NDJSON records, raw output)."""
    e = {"OMP_NUM_THREADS": "1"}
    if env:
        e.update(env)
    rc, out, dt = sh([exe] + [str(a) for a in args], timeout=timeout, env=e, stdin=stdin)
    recs = []
    for line in out.splitlines():
        if line.startswith("{"):
            try:
                recs.append(json.loads(line))
            except Exception:
                pass
    return rc, recs, out


def stable_hash(obj):
    return hashlib.sha1(json.dumps(obj, sort_keys=True, default=str).encode()).hexdigest()[:12]
