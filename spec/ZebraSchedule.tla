---------------------------- MODULE ZebraSchedule ----------------------------
(***************************************************************************)
(* The INTENDED parallel schedules of two operators as formulas in the     *)
(* grid shape (nr, ntheta, number of smoother circles nC):                 *)
(*   "residualGive"  ResidualGive::computeResidual - three passes over the *)
(*                   circles (stride 3, outermost first) and three passes  *)
(*                   over the radial lines with the ntheta mod 3 remainder *)
(*                   rule; the last circle pass overlaps (nowait) the      *)
(*                   first radial pass;                                    *)
(*   "smootherTake"  SmootherTake::smoothing - black circles, white        *)
(*                   circles (nowait), black radial lines, white radial;   *)
(*   "xsmootherTake" ExtrapolatedSmootherTake - the same schedule;         *)
(*   "residualTake"  ResidualTake::computeResidual - all circles and all   *)
(*                   radial lines in one epoch (both loops nowait).        *)
(* A region is a sequence of loops [nowait, tasks]; a task has an          *)
(* iteration id and a read / write footprint over (array, node).           *)
(* Property (design level of C11/C12): EpochDisjoint for EVERY shape -      *)
(* also the shape classes the test suite never builds.  The observed       *)
(* tables of the real operators must be contained in these (conformance).  *)
(***************************************************************************)
EXTENDS Integers, Sequences, FiniteSets, TLC, Json, SequencesExt

CONSTANTS NrSet, NtSet, Ops, EmitTables
VARIABLES s      \* [op, nr, nt, nc, dir]
vars == <<s>>

WT(u) == u % s.nt
Node(i, j) == i * s.nt + WT(j)                    \* node id, independent of the split
InGrid(i) == i >= 0 /\ i < s.nr
\* 9-point neighbourhood (rows that have an entry in the column of node (i,j)); across the origin for i = 0
Neigh(i, j) == {Node(a, b) : a \in {x \in {i - 1, i, i + 1} : InGrid(x)}, b \in {j - 1, j, j + 1}}
                 \cup (IF i = 0 /\ ~s.dir THEN {Node(0, j + s.nt \div 2)} ELSE {})
CircleNodes(i) == {Node(i, j) : j \in 0..(s.nt - 1)}
RadialNodes(j) == {Node(i, j) : i \in s.nc..(s.nr - 1)}
Tag(arr, S) == {<<arr, n>> : n \in S}

(* ------------------------------ residual (give) -------------------------- *)
\* applyCircleSection(i_r): every node of the circle gives to result at its neighbours; reads x on the circle
GiveCircle(i) == [w |-> Tag("result", UNION {Neigh(i, j) : j \in 0..(s.nt - 1)}), r |-> Tag("x", CircleNodes(i))]
GiveRadial(j) == [w |-> Tag("result", UNION {Neigh(i, j) : i \in s.nc..(s.nr - 1)}), r |-> Tag("x", RadialNodes(j))]
Merge(a, b) == [w |-> a.w \cup b.w, r |-> a.r \cup b.r]
Add3 == s.nt % 3                                  \* additional_radial_tasks
NumRad == s.nt - Add3                             \* num_radial_tasks
\* the lines one radial task works on
RadLines(task) ==
  IF task = 0 THEN (IF Add3 = 0 THEN {0} ELSE {0, 1})
  ELSE IF task = 1 THEN (IF Add3 = 0 THEN {1} ELSE IF Add3 = 1 THEN {2} ELSE {2, 3})
  ELSE {task + Add3}
RadTask(task) == LET ls == RadLines(task)
                     f == [j \in ls |-> GiveRadial(j)]
                 IN [id |-> task, w |-> UNION {f[j].w : j \in ls}, r |-> UNION {f[j].r : j \in ls}]
CircTask(task) == LET c == GiveCircle(s.nc - task - 1) IN [id |-> task, w |-> c.w, r |-> c.r]
Pass(lo, n, step) == {k \in lo..(n - 1) : (k - lo) % step = 0}
ResidualRegion ==
  << [nowait |-> FALSE, tasks |-> {CircTask(k) : k \in Pass(0, s.nc, 3)}],
     [nowait |-> FALSE, tasks |-> {CircTask(k) : k \in Pass(1, s.nc, 3)}],
     [nowait |-> TRUE,  tasks |-> {CircTask(k) : k \in Pass(2, s.nc, 3)}],
     [nowait |-> FALSE, tasks |-> {RadTask(k) : k \in Pass(0, NumRad, 3)}],
     [nowait |-> FALSE, tasks |-> {RadTask(k) : k \in Pass(1, NumRad, 3)}],
     [nowait |-> FALSE, tasks |-> {RadTask(k) : k \in Pass(2, NumRad, 3)}] >>

(* ------------------------------ smoother (take) -------------------------- *)
\* one line task: temp and x of the line are written; x of the neighbouring lines and rhs of the line are read
LineNeighbours(S) == UNION {Neigh(n \div s.nt, n % s.nt) : n \in S}
TakeLine(id, S) == [id |-> id, w |-> Tag("temp", S) \cup Tag("x", S), r |-> Tag("x", LineNeighbours(S) \ S) \cup Tag("rhs", S)]
StartBlack == IF s.nc % 2 = 0 THEN 1 ELSE 0
StartWhite == IF s.nc % 2 = 0 THEN 0 ELSE 1
SmootherRegion ==
  << [nowait |-> FALSE, tasks |-> {TakeLine(i, CircleNodes(i)) : i \in Pass(StartBlack, s.nc, 2)}],
     [nowait |-> TRUE,  tasks |-> {TakeLine(i, CircleNodes(i)) : i \in Pass(StartWhite, s.nc, 2)}],
     [nowait |-> FALSE, tasks |-> {TakeLine(j, RadialNodes(j)) : j \in Pass(0, s.nt, 2)}],
     [nowait |-> FALSE, tasks |-> {TakeLine(j, RadialNodes(j)) : j \in Pass(1, s.nt, 2)}] >>

(* ------------------------------ residual (take) -------------------------- *)
\* every line task computes result on its own line from x on the line and its neighbours; no barrier at all
TakeRes(id, S) == [id |-> id, w |-> Tag("result", S), r |-> Tag("x", LineNeighbours(S) \cup S) \cup Tag("rhs", S)]
ResidualTakeRegion ==
  << [nowait |-> TRUE, tasks |-> {TakeRes(i, CircleNodes(i)) : i \in 0..(s.nc - 1)}],
     [nowait |-> TRUE, tasks |-> {TakeRes(j, RadialNodes(j)) : j \in 0..(s.nt - 1)}] >>

\* ExtrapolatedSmootherTake::extrapolatedSmoothing has the schedule of SmootherTake::smoothing (it relaxes fewer unknowns per line)
Region == CASE s.op = "residualGive" -> ResidualRegion
            [] s.op = "residualTake" -> ResidualTakeRegion
            [] s.op \in {"smootherTake", "xsmootherTake"} -> SmootherRegion

(* -------------------------------- properties ----------------------------- *)
RECURSIVE Epoch(_)
Epoch(l) == IF l = 1 THEN 0 ELSE Epoch(l - 1) + (IF Region[l - 1].nowait THEN 0 ELSE 1)
Conflict(a, b) == (a.w \cap (b.r \cup b.w) # {}) \/ (b.w \cap a.r # {})
EpochDisjoint == \A l1 \in 1..Len(Region), l2 \in 1..Len(Region) :
                   (l1 <= l2 /\ Epoch(l1) = Epoch(l2)) =>
                     \A a \in Region[l1].tasks, b \in Region[l2].tasks : (l1 # l2 \/ a.id # b.id) => ~Conflict(a, b)
\* every line is worked on exactly once (no line forgotten or assembled twice by the remainder rule)
AllRadialOnce == s.op = "residualGive" =>
                   /\ UNION {RadLines(k) : k \in 0..(NumRad - 1)} = 0..(s.nt - 1)
                   /\ \A k1 \in 0..(NumRad - 1), k2 \in 0..(NumRad - 1) : k1 # k2 => RadLines(k1) \cap RadLines(k2) = {}
AllCirclesOnce == s.op \in {"smootherTake", "xsmootherTake"} =>
                   Pass(StartBlack, s.nc, 2) \cup Pass(StartWhite, s.nc, 2) = 0..(s.nc - 1) /\ (s.nc - 1) \in Pass(StartBlack, s.nc, 2)

Init == \E op \in Ops, nr \in NrSet, nt \in NtSet, nc \in 2..9, dir \in BOOLEAN :
          /\ nc <= nr - 3
          /\ s = [op |-> op, nr |-> nr, nt |-> nt, nc |-> nc, dir |-> dir]
Next == UNCHANGED s
Spec == Init /\ [][Next]_vars

TaskSeq(T) == LET RECURSIVE f(_)
                  f(U) == IF U = {} THEN <<>> ELSE LET m == CHOOSE x \in U : \A y \in U : x.id <= y.id IN <<[id |-> m.id, w |-> SetToSeq(m.w), r |-> SetToSeq(m.r)]>> \o f(U \ {m})
              IN f(T)
Table == [shape |-> s, loops |-> [l \in 1..Len(Region) |-> [nowait |-> Region[l].nowait, epoch |-> Epoch(l), tasks |-> TaskSeq(Region[l].tasks)]]]
Emit == IF EmitTables THEN PrintT("@@CASE " \o ToJson(Table)) ELSE TRUE
=============================================================================
