---------------------------- MODULE ZebraSchedule ----------------------------
(***************************************************************************)
(* The INTENDED parallel schedules of two operators as formulas in the     *)
(* grid shape (nr, ntheta, number of smoother circles nC):                 *)
(*   "residualGive"  ResidualGive::computeResidual - three passes over the *)
(*                   circles (stride 3, outermost first) and three passes  *)
(*                   over the radial lines with the ntheta mod 3 remainder *)
(*                   rule; the last circle pass overlaps (nowait) the      *)
(*                   first radial pass;                                    *)
(*   "smootherTake"  SmootherTake::smoothing - black circles, white        *)
(*                   circles (nowait), black radial lines, white radial;   *)
(*   "xsmootherTake" ExtrapolatedSmootherTake - the same schedule;         *)
(*   "smootherGive"  SmootherGive::smoothingForLoop - 16 loops, circle and  *)
(*                   radial work overlapped by nowait in four epochs;      *)
(*   "xsmootherGive" ExtrapolatedSmootherGive - an initialisation region    *)
(*                   followed by the 16 loops of the give smoother;        *)
(*   "residualTake"  ResidualTake::computeResidual - all circles and all   *)
(*                   radial lines in one epoch (both loops nowait).        *)
(* A region is a sequence of loops [nowait, tasks]; a task has an          *)
(* iteration id and a read / write footprint over (array, node).           *)
(* Property (design level of C11/C12): EpochDisjoint for EVERY shape -      *)
(* also the shape classes the test suite never builds.  The observed       *)
(* tables of the real operators must be contained in these (conformance).  *)
(***************************************************************************)
EXTENDS Integers, Sequences, FiniteSets, TLC, Json, SequencesExt, IOUtils

CONSTANTS NrSet, NtSet, Ops, EmitTables,
          FIXED      \* repaired defects: subset of {"F19", "F21"} (F19: the give smoothers sweep sequentially unless ntheta % 4 = 0)
VARIABLES s      \* [op, nr, nt, nc, dir]
vars == <<s>>

WT(u) == u % s.nt
Node(i, j) == i * s.nt + WT(j)                    \* node id, independent of the split
InGrid(i) == i >= 0 /\ i < s.nr
\* 9-point neighbourhood (rows that have an entry in the column of node (i,j)); across the origin for i = 0
Neigh(i, j) == {Node(a, b) : a \in {x \in {i - 1, i, i + 1} : InGrid(x)}, b \in {j - 1, j, j + 1}}
                 \cup (IF i = 0 /\ ~s.dir THEN {Node(0, j + s.nt \div 2)} ELSE {})
CircleNodes(i) == {Node(i, j) : j \in 0..(s.nt - 1)}
RadialNodes(j) == {Node(i, j) : i \in s.nc..(s.nr - 1)}
Tag(arr, S) == {<<arr, n>> : n \in S}

(* ------------------------------ residual (give) -------------------------- *)
\* applyCircleSection(i_r): every node of the circle gives to result at its neighbours; reads x on the circle
GiveCircle(i) == [w |-> Tag("result", UNION {Neigh(i, j) : j \in 0..(s.nt - 1)}), r |-> Tag("x", CircleNodes(i))]
GiveRadial(j) == [w |-> Tag("result", UNION {Neigh(i, j) : i \in s.nc..(s.nr - 1)}), r |-> Tag("x", RadialNodes(j))]
Merge(a, b) == [w |-> a.w \cup b.w, r |-> a.r \cup b.r]
Add3 == s.nt % 3                                  \* additional_radial_tasks
NumRad == s.nt - Add3                             \* num_radial_tasks
\* the lines one radial task works on
RadLines(task) ==
  IF task = 0 THEN (IF Add3 = 0 THEN {0} ELSE {0, 1})
  ELSE IF task = 1 THEN (IF Add3 = 0 THEN {1} ELSE IF Add3 = 1 THEN {2} ELSE {2, 3})
  ELSE {task + Add3}
RadTask(task) == LET ls == RadLines(task)
                     f == [j \in ls |-> GiveRadial(j)]
                 IN [id |-> task, w |-> UNION {f[j].w : j \in ls}, r |-> UNION {f[j].r : j \in ls}]
CircTask(task) == LET c == GiveCircle(s.nc - task - 1) IN [id |-> task, w |-> c.w, r |-> c.r]
Pass(lo, n, step) == {k \in lo..(n - 1) : (k - lo) % step = 0}
ResidualRegion ==
  << [nowait |-> FALSE, tasks |-> {CircTask(k) : k \in Pass(0, s.nc, 3)}],
     [nowait |-> FALSE, tasks |-> {CircTask(k) : k \in Pass(1, s.nc, 3)}],
     [nowait |-> TRUE,  tasks |-> {CircTask(k) : k \in Pass(2, s.nc, 3)}],
     [nowait |-> FALSE, tasks |-> {RadTask(k) : k \in Pass(0, NumRad, 3)}],
     [nowait |-> FALSE, tasks |-> {RadTask(k) : k \in Pass(1, NumRad, 3)}],
     [nowait |-> FALSE, tasks |-> {RadTask(k) : k \in Pass(2, NumRad, 3)}] >>

(* ------------------------------ smoother (take) -------------------------- *)
\* one line task: temp and x of the line are written; x of the neighbouring lines and rhs of the line are read
LineNeighbours(S) == UNION {Neigh(n \div s.nt, n % s.nt) : n \in S}
TakeLine(id, S) == [id |-> id, w |-> Tag("temp", S) \cup Tag("x", S), r |-> Tag("x", LineNeighbours(S) \ S) \cup Tag("rhs", S)]
StartBlack == IF s.nc % 2 = 0 THEN 1 ELSE 0
StartWhite == IF s.nc % 2 = 0 THEN 0 ELSE 1
SmootherRegion ==
  << [nowait |-> FALSE, tasks |-> {TakeLine(i, CircleNodes(i)) : i \in Pass(StartBlack, s.nc, 2)}],
     [nowait |-> TRUE,  tasks |-> {TakeLine(i, CircleNodes(i)) : i \in Pass(StartWhite, s.nc, 2)}],
     [nowait |-> FALSE, tasks |-> {TakeLine(j, RadialNodes(j)) : j \in Pass(0, s.nt, 2)}],
     [nowait |-> FALSE, tasks |-> {TakeLine(j, RadialNodes(j)) : j \in Pass(1, s.nt, 2)}] >>

(* ------------------------------ residual (take) -------------------------- *)
\* every line task computes result on its own line from x on the line and its neighbours; no barrier at all
TakeRes(id, S) == [id |-> id, w |-> Tag("result", S), r |-> Tag("x", LineNeighbours(S) \cup S) \cup Tag("rhs", S)]
ResidualTakeRegion ==
  << [nowait |-> TRUE, tasks |-> {TakeRes(i, CircleNodes(i)) : i \in 0..(s.nc - 1)}],
     [nowait |-> TRUE, tasks |-> {TakeRes(j, RadialNodes(j)) : j \in 0..(s.nt - 1)}] >>

(* ------------------------------ smoother (give) -------------------------- *)
\* SmootherGive::smoothingForLoop: 16 loops.  Circle i has colour Black iff it has the parity of the outermost circle
\* nc-1; radial line j is Black iff j is even.  applyAscOrtho*Section(line, colour) works "inside" (the line has the
\* colour: it accumulates into temp on ITSELF from x on its neighbours) or "outside" (it accumulates into temp on
\* its NEIGHBOUR lines from x on itself).  Footprints are given per line (a superset of the cells really touched).
CircleBlack(i) == (s.nc - 1 - i) % 2 = 0
Ring(i) == IF i >= 0 /\ i < s.nr THEN CircleNodes(i) ELSE {}
Rad(j) == RadialNodes(WT(j))
GCirc(t, colour) ==       \* task t works on circle i = nc - 1 - t (t = -1: the first ring of the radial part)
  LET i == s.nc - 1 - t
      inside == i < s.nc /\ (CircleBlack(i) = (colour = "Black"))
  IN IF inside THEN [id |-> t, w |-> Tag("temp", Ring(i)), r |-> Tag("x", Ring(i - 1) \cup Ring(i + 1))]
     ELSE [id |-> t, w |-> Tag("temp", (IF i - 1 >= 0 THEN Ring(i - 1) ELSE {}) \cup (IF i + 1 <= s.nc - 1 THEN Ring(i + 1) ELSE {})),
           r |-> Tag("x", Ring(i))]
GRad(t, colour) ==        \* task t works on radial line j = t (from the last circle outwards)
  LET inside == (t % 2 = 0) = (colour = "Black")
      near == Rad(t - 1) \cup Rad(t) \cup Rad(t + 1) \cup {Node(s.nc - 1, t - 1), Node(s.nc - 1, t), Node(s.nc - 1, t + 1)}
  IN IF inside THEN [id |-> t, w |-> Tag("temp", Rad(t)), r |-> Tag("x", near) \cup Tag("rhs", Rad(t))]
     ELSE [id |-> t, w |-> Tag("temp", Rad(t - 1) \cup Rad(t + 1)), r |-> Tag("x", near) \cup Tag("rhs", Rad(t))]
GSolveC(t) == LET i == s.nc - 1 - t IN [id |-> t, w |-> Tag("temp", Ring(i)) \cup Tag("x", Ring(i)), r |-> {}]
GSolveR(t) == [id |-> t, w |-> Tag("temp", Rad(t)) \cup Tag("x", Rad(t)), r |-> {}]
Lp(nw, T) == [nowait |-> nw, tasks |-> T]
SmootherGiveRegion ==
  << Lp(FALSE, {GCirc(t, "Black") : t \in Pass(0, s.nc, 2)}),            \* inside black circles
     Lp(FALSE, {GCirc(t, "Black") : t \in {k - 1 : k \in Pass(0, s.nc + 1, 4)}}),   \* outside, tasks -1, 3, 7, ...
     Lp(FALSE, {GCirc(t, "Black") : t \in Pass(1, s.nc, 4)}),
     Lp(FALSE, {GSolveC(t) : t \in Pass(0, s.nc, 2)}),                    \* solve black circles
     Lp(TRUE,  {GCirc(t, "White") : t \in Pass(1, s.nc, 2)}),            \* inside white circles   | same epoch as
     Lp(FALSE, {GRad(t, "Black") : t \in Pass(0, s.nt, 2)}),             \* inside black radials   |
     Lp(TRUE,  {GCirc(t, "White") : t \in Pass(0, s.nc, 4)}),            \* outside white circles  |
     Lp(FALSE, {GRad(t, "Black") : t \in Pass(1, s.nt, 4)}),             \* outside black radials  |
     Lp(TRUE,  {GCirc(t, "White") : t \in Pass(2, s.nc, 4)}),
     Lp(FALSE, {GRad(t, "Black") : t \in Pass(3, s.nt, 4)}),
     Lp(TRUE,  {GSolveC(t) : t \in Pass(1, s.nc, 2)}),                    \* solve white circles    |
     Lp(FALSE, {GSolveR(t) : t \in Pass(0, s.nt, 2)}),                    \* solve black radials    |
     Lp(FALSE, {GRad(t, "White") : t \in Pass(1, s.nt, 2)}),
     Lp(FALSE, {GRad(t, "White") : t \in Pass(0, s.nt, 4)}),
     Lp(FALSE, {GRad(t, "White") : t \in Pass(2, s.nt, 4)}),
     Lp(FALSE, {GSolveR(t) : t \in Pass(1, s.nt, 2)}) >>

(* ----------------------- extrapolated smoother (give) --------------------- *)
\* ExtrapolatedSmootherGive::extrapolatedSmoothingForLoop: a first parallel region initialises temp on every node (from rhs, or
\* from x on the coarse nodes: circle rows nowait, then radial rows; the end of the region is a barrier), then the 16 loops of
\* the give smoother.  A line of the extrapolated smoother also reads x on ITSELF (its coarse nodes are moved to the right-hand side).
XInitC(i) == [id |-> i, w |-> Tag("temp", Ring(i)), r |-> Tag("x", Ring(i))]
XInitR(j) == [id |-> j, w |-> Tag("temp", RadialNodes(j)), r |-> Tag("x", RadialNodes(j))]
XCirc(t, colour) == LET g == GCirc(t, colour) IN [g EXCEPT !.r = @ \cup Tag("x", Ring(s.nc - 1 - t))]
XSmootherGiveRegion ==
  << Lp(TRUE,  {XInitC(i) : i \in 0..(s.nc - 1)}),
     Lp(FALSE, {XInitR(j) : j \in 0..(s.nt - 1)}) >> \o
  [l \in 1..16 |-> LET g == SmootherGiveRegion[l]
                   IN IF l \in {1, 2, 3} THEN Lp(g.nowait, {XCirc(t.id, "Black") : t \in g.tasks})
                      ELSE IF l \in {5, 7, 9} THEN Lp(g.nowait, {XCirc(t.id, "White") : t \in g.tasks})
                      ELSE g]

\* ExtrapolatedSmootherTake::extrapolatedSmoothing has the schedule of SmootherTake::smoothing (it relaxes fewer unknowns per line)
\* F21: without a circle section the innermost nodes belong to the radial lines and couple across the origin to the opposite
\* line, which the 3-colouring does not separate; the repaired code sweeps sequentially then
\* The give ASSEMBLIES (direct-solver matrix, A_sc matrices of the two give smoothers) sweep with the schedule of the give residual;
\* a cell <<"result", n>> then stands for row n of the assembled matrix (the smoother matrices hold the in-line part of the row only)
GiveAsmOps == {"directGiveAsm", "smootherGiveAsm", "xsmootherGiveAsm"}
Region == CASE s.op \in {"residualGive", "directGiveAsm"} -> IF "F21" \in FIXED /\ s.nc = 0 /\ ~s.dir THEN <<>> ELSE ResidualRegion
            [] s.op \in {"smootherGiveAsm", "xsmootherGiveAsm"} -> ResidualRegion
            [] s.op = "residualTake" -> ResidualTakeRegion
            [] s.op \in {"smootherTake", "xsmootherTake"} -> SmootherRegion
            [] s.op = "smootherGive" -> IF "F19" \in FIXED /\ s.nt % 4 # 0 THEN <<>> ELSE SmootherGiveRegion
            [] s.op = "xsmootherGive" -> IF s.nt % 4 # 0 THEN <<>> ELSE XSmootherGiveRegion      \* the extrapolated smoothers assert ntheta % 4 = 0

(* -------------------------------- properties ----------------------------- *)
\* the region is evaluated ONCE per state (LET), its loops and the epoch numbering are passed on as values
RECURSIVE EpochOf(_, _)
EpochOf(reg, l) == IF l = 1 THEN 0 ELSE EpochOf(reg, l - 1) + (IF reg[l - 1].nowait THEN 0 ELSE 1)
Conflict(a, b) == (a.w \cap (b.r \cup b.w) # {}) \/ (b.w \cap a.r # {})
EpochDisjoint == LET reg == Region
                     ep == [l \in 1..Len(reg) |-> EpochOf(reg, l)]
                 IN \A l1 \in 1..Len(reg), l2 \in 1..Len(reg) :
                      (l1 <= l2 /\ ep[l1] = ep[l2]) =>
                        \A a \in reg[l1].tasks, b \in reg[l2].tasks : (l1 # l2 \/ a.id # b.id) => ~Conflict(a, b)
\* every line is worked on exactly once (no line forgotten or assembled twice by the remainder rule)
AllRadialOnce == s.op \in {"residualGive"} \cup GiveAsmOps =>
                   /\ UNION {RadLines(k) : k \in 0..(NumRad - 1)} = 0..(s.nt - 1)
                   /\ \A k1 \in 0..(NumRad - 1), k2 \in 0..(NumRad - 1) : k1 # k2 => RadLines(k1) \cap RadLines(k2) = {}
AllCirclesOnce == s.op \in {"smootherTake", "xsmootherTake"} =>
                   Pass(StartBlack, s.nc, 2) \cup Pass(StartWhite, s.nc, 2) = 0..(s.nc - 1) /\ (s.nc - 1) \in Pass(StartBlack, s.nc, 2)

\* the give smoothers solve every circle line and every radial line exactly once per sweep (loops 4, 11 and 12, 16 of the 16)
GiveSolvesOnce == (s.op \in {"smootherGive", "xsmootherGive"} /\ Region # <<>>) =>
                   LET g == SmootherGiveRegion
                       ids(l) == {t.id : t \in g[l].tasks}
                   IN /\ ids(4) \cup ids(11) = 0..(s.nc - 1) /\ ids(4) \cap ids(11) = {}
                      /\ ids(12) \cup ids(16) = 0..(s.nt - 1) /\ ids(12) \cap ids(16) = {}
                      /\ (s.op = "xsmootherGive" => {t.id : t \in Region[1].tasks} = 0..(s.nc - 1) /\ {t.id : t \in Region[2].tasks} = 0..(s.nt - 1))

\* the shapes: the box NrSet x NtSet x 2..9 circles x boundary mode, or exactly the shapes listed in the file IOEnv.ZSHAPES
ShapeList == IF "ZSHAPES" \in DOMAIN IOEnv THEN ndJsonDeserialize(IOEnv.ZSHAPES) ELSE <<>>
Init == IF ShapeList = <<>>
        THEN \E op \in Ops, nr \in NrSet, nt \in NtSet, nc \in 0..14, dir \in BOOLEAN :
               /\ nc <= nr
               /\ ((nc < 2 \/ nc > nr - 3) => op \in {"residualGive", "residualTake", "directGiveAsm"})      \* the smoothers need two circles and three radial nodes, the residuals accept any split
               /\ s = [op |-> op, nr |-> nr, nt |-> nt, nc |-> nc, dir |-> dir]
        ELSE \E op \in Ops, k \in 1..Len(ShapeList) :
               s = [op |-> op, nr |-> ShapeList[k].nr, nt |-> ShapeList[k].nt, nc |-> ShapeList[k].nc, dir |-> ShapeList[k].dir # 0]
Next == UNCHANGED s
Spec == Init /\ [][Next]_vars

TaskSeq(T) == LET RECURSIVE f(_)
                  f(U) == IF U = {} THEN <<>> ELSE LET m == CHOOSE x \in U : \A y \in U : x.id <= y.id IN <<[id |-> m.id, w |-> SetToSeq(m.w), r |-> SetToSeq(m.r)]>> \o f(U \ {m})
              IN f(T)
Table == LET reg == Region
         IN [shape |-> s, loops |-> [l \in 1..Len(reg) |-> [nowait |-> reg[l].nowait, epoch |-> EpochOf(reg, l), tasks |-> TaskSeq(reg[l].tasks)]]]
Emit == IF EmitTables THEN PrintT("@@CASE " \o ToJson(Table)) ELSE TRUE
=============================================================================
