SPECIFICATION Spec
CONSTANTS
  Obj = {1,2}
  Class = "CSR"
  Shapes = {1,2,3,4}
  Variants = {1,2}
  FIXED = {}
  GenCases = FALSE
  MaxHist = 7
VIEW PlainView
CONSTRAINT Bound
INVARIANTS
  NoThrow
  InBounds
  Refines
