-------------------------------- MODULE Cycle --------------------------------
(***************************************************************************)
(* The multigrid cycles of GMGPolar as a DATA-FLOW machine over named work *)
(* vectors (src/GMGPolar/MultigridMethods/*.cpp, initializeSolution() in   *)
(* solver.cpp).  The state is the content of the four work vectors of      *)
(* every level, buf[<<level, field>>], as a symbolic TERM; one operator    *)
(* per C++ statement updates it, with the preconditions the C++ relies on  *)
(* (operands allocated, result distinct from operands where required).     *)
(* Recursion passes the vectors exactly as the code passes references      *)
(* (next.residual -> solution, next.error_correction -> rhs,               *)
(*  next.solution -> scratch).                                             *)
(*                                                                         *)
(* The MATHEMATICAL definition MG / MGX / FMGStart is buffer free.         *)
(* Properties (C10, C09): after a cycle the solution vector holds exactly  *)
(* the mathematical term (CycleRefinesMG), that term contains no stale or  *)
(* unallocated operand whatever the scratch vectors held before (NoStale), *)
(* right-hand sides are preserved (RhsPreserved), and the FMG start-up     *)
(* produces FMGStart(L) (StartRefinesFMG).                                 *)
(***************************************************************************)
EXTENDS Integers, Sequences, TLC, Json

CONSTANTS LSet,      \* numbers of levels, e.g. 2..4
          NuSet,     \* smoothing step counts, e.g. 0..2
          ItsSet,    \* FMG iteration counts
          Defects,   \* seeded deviations of the code-shaped layer (self-test): subset of {"swapRhs","noZero","F8"}
          EmitTerms

VARIABLES cfg, phase, result
vars == <<cfg, phase, result>>

Fields == {"sol", "rhs", "res", "err"}

(* --------------------------------- terms --------------------------------- *)
Zero == <<"Zero">>
F(l) == <<"F", l>>                    \* discretised right-hand side of level l
U0 == <<"U0">>                        \* the iterate the cycle starts from
Stale(l, f) == <<"Stale", l, f>>      \* arbitrary old content
Unalloc == <<"Unalloc">>              \* vector of size 0
Clob == <<"Clob">>                    \* scratch content after an operator used it as temporary
S(l, u, f) == <<"S", l, u, f>>        \* one smoothing sweep
SX(l, u, f) == <<"SX", l, u, f>>      \* one extrapolated smoothing sweep
Res(l, f, u) == <<"Res", l, f, u>>    \* f - A_l u
R(l, v) == <<"R", l, v>>              \* restriction from level l to l+1
RX(l, v) == <<"RX", l, v>>
Inj(l, v) == <<"Inj", l, v>>
P(l, v) == <<"P", l, v>>              \* prolongation from level l to l-1
PX(l, v) == <<"PX", l, v>>
FI(l, v) == <<"FI", l, v>>            \* FMG interpolation from level l to l-1
D(l, v) == <<"D", l, v>>              \* direct solve on level l
Add(u, v) == <<"Add", u, v>>
Lin(a, u, b, v) == <<"Lin", a, u, b, v>>   \* a u + b v with a, b in {"4/3", "-1/3"}
\* A restricted residual handed to a coarser level is INTERNED: the coarse right-hand side is the name <<"RC", path>>
\* (path = position of the cycle call in the call tree) and its definition is kept once in a table.  Without this
\* every smoothing step on a coarse level would copy the whole fine-level term (exponential growth).
Name(path) == <<"RC", path>>

RECURSIVE Bad(_)
Bad(t) ==     \* does the term depend on stale, clobbered or unallocated data?
  IF t[1] \in {"Stale", "Unalloc", "Clob", "Error"} THEN TRUE
  ELSE IF t[1] \in {"Zero", "F", "U0", "RC"} THEN FALSE      \* a name: its definition is judged on its own
  ELSE IF t[1] \in {"S", "SX", "Res"} THEN Bad(t[3]) \/ Bad(t[4])
  ELSE IF t[1] \in {"R", "RX", "Inj", "P", "PX", "FI", "D"} THEN Bad(t[3])
  ELSE IF t[1] = "Add" THEN Bad(t[2]) \/ Bad(t[3])
  ELSE IF t[1] = "Lin" THEN Bad(t[3]) \/ Bad(t[5])
  ELSE TRUE

(* ------------------------ the mathematical definition -------------------- *)
\* every function returns [t |-> term, defs |-> table path -> definition of the coarse right-hand side named by path]
RECURSIVE Sm(_, _, _, _, _)
Sm(n, x, l, u, f) == IF n = 0 THEN u ELSE Sm(n - 1, x, l, IF x THEN SX(l, u, f) ELSE S(l, u, f), f)

\* kind in {"V","W","F"}; c = the configuration (L, nu1, nu2)
RECURSIVE MG(_, _, _, _, _, _, _)
MG(c, kind, d, u, f, path, defs) ==
  LET u1 == (Sm(c.nu1, FALSE, d, u, f))
      df == (Append(defs, [p |-> path, d |-> R(d, Res(d, f, u1))]))
      rc == Name(path)
      e  == (IF d + 1 = c.L - 1 THEN [t |-> D(d + 1, rc), defs |-> df]
            ELSE CASE kind = "V" -> MG(c, "V", d + 1, Zero, rc, Append(path, 1), df)
                   [] kind = "W" -> LET r1 == (MG(c, "W", d + 1, Zero, rc, Append(path, 1), df))
                                    IN MG(c, "W", d + 1, r1.t, rc, Append(path, 2), r1.defs)
                   [] kind = "F" -> LET r1 == (MG(c, "F", d + 1, Zero, rc, Append(path, 1), df))
                                    IN MG(c, "V", d + 1, r1.t, rc, Append(path, 2), r1.defs))
  IN [t |-> Sm(c.nu2, FALSE, d, Add(u1, P(d + 1, e.t)), f), defs |-> e.defs]

\* implicitly extrapolated cycle on the finest level; xs = extrapolated smoother in use (not full grid smoothing)
MGX(c, kind, u, f, xs, path, defs) ==
  LET u1 == (Sm(c.nu1, xs, 0, u, f))
      df == (Append(defs, [p |-> path, d |-> Lin("4/3", RX(0, Res(0, f, u1)), "-1/3", Res(1, F(1), Inj(0, u1)))]))
      rc == Name(path)
      e  == (IF 1 = c.L - 1 THEN [t |-> D(1, rc), defs |-> df]
            ELSE CASE kind = "V" -> MG(c, "V", 1, Zero, rc, Append(path, 1), df)
                   [] kind = "W" -> LET r1 == (MG(c, "W", 1, Zero, rc, Append(path, 1), df))
                                    IN MG(c, "W", 1, r1.t, rc, Append(path, 2), r1.defs)
                   [] kind = "F" -> LET r1 == (MG(c, "F", 1, Zero, rc, Append(path, 1), df))
                                    IN MG(c, "V", 1, r1.t, rc, Append(path, 2), r1.defs))
  IN [t |-> Sm(c.nu2, xs, 0, Add(u1, PX(1, e.t)), f), defs |-> e.defs]

RECURSIVE Its(_, _, _, _, _, _, _, _)
Its(n, c, kind, d, r, ext, xs, i) ==       \* r = [t, defs]; i = index of the next cycle on this level
  IF n = 0 THEN r
  ELSE Its(n - 1, c, kind, d,
           (IF d = 0 /\ ext THEN MGX(c, kind, r.t, F(0), xs, <<d, i>>, r.defs)
                   ELSE MG(c, kind, d, r.t, F(d), <<d, i>>, r.defs)), ext, xs, i + 1)

\* nested iteration: direct solve on the coarsest level, then interpolate and improve level by level
RECURSIVE FMGUp(_, _, _, _, _, _, _)
FMGUp(c, kind, its, l, r, ext, xs) ==    \* r.t = approximation on level l; returns the one on level 0
  IF l = 0 THEN r
  ELSE FMGUp(c, kind, its, l - 1, Its(its, c, kind, l - 1, [t |-> FI(l, r.t), defs |-> r.defs], ext, xs, 1), ext, xs)
FMGStart(c, kind, its, ext, xs) == FMGUp(c, kind, its, c.L - 1, [t |-> D(c.L - 1, F(c.L - 1)), defs |-> <<>>], ext, xs)

(* ---------------------- the code-shaped buffer machine ------------------- *)
\* a buffer state: v = function <<level, field>> -> term, defs = table of interned coarse right-hand sides, err
Key(l, f) == <<l, f>>
Err(b, why) == [b EXCEPT !.err = IF b.err = "" THEN why ELSE b.err]
Get(b, k) == b.v[k]
Alloc(b, k) == b.v[k] # Unalloc
Put(b, k, t) == IF ~Alloc(b, k) THEN Err(b, "write to unallocated " \o k[2]) ELSE [b EXCEPT !.v[k] = t]
\* intern the content of vector x under the name of this call
OpName(b, x, path) == [Put(b, x, Name(path)) EXCEPT !.defs = Append(b.defs, [p |-> path, d |-> Get(b, x)])]

\* level.smoothing(x, rhs, temp): temp must differ from x and rhs; it is left clobbered
OpSmooth(b, xs, l, x, f, t) ==
  IF x = t \/ f = t \/ x = f THEN Err(b, "smoother aliasing")
  ELSE IF ~Alloc(b, x) \/ ~Alloc(b, f) \/ ~Alloc(b, t) THEN Err(b, "smoother on unallocated vector")
  ELSE Put(Put(b, x, IF xs THEN SX(l, Get(b, x), Get(b, f)) ELSE S(l, Get(b, x), Get(b, f))), t, Clob)
RECURSIVE OpSmoothN(_, _, _, _, _, _, _)
OpSmoothN(n, b, xs, l, x, f, t) == IF n = 0 THEN b ELSE OpSmoothN(n - 1, (OpSmooth(b, xs, l, x, f, t)), xs, l, x, f, t)
\* level.computeResidual(result, rhs, x): the give implementation accumulates into result, so result must not alias x
OpResidual(b, l, out, f, x) ==
  IF out = x \/ out = f THEN Err(b, "residual aliasing")
  ELSE IF ~Alloc(b, f) \/ ~Alloc(b, x) THEN Err(b, "residual of unallocated vector")
  ELSE Put(b, out, Res(l, Get(b, f), Get(b, x)))
OpUnary(b, op, l, out, in) ==
  IF out = in THEN Err(b, "transfer aliasing")
  ELSE IF ~Alloc(b, in) THEN Err(b, "transfer of unallocated vector")
  ELSE Put(b, out, <<op, l, Get(b, in)>>)
OpDirect(b, l, x) == IF ~Alloc(b, x) THEN Err(b, "direct solve of unallocated vector") ELSE Put(b, x, D(l, Get(b, x)))
OpAssignZero(b, x) == Put(b, x, Zero)
OpAdd(b, x, y) == IF ~Alloc(b, y) THEN Err(b, "add unallocated") ELSE Put(b, x, Add(Get(b, x), Get(b, y)))
OpLin(b, x, a, y, bb) == Put(b, x, Lin(a, Get(b, x), bb, Get(b, y)))    \* x = a x + bb y
OpCopy(b, x, y) == Put(b, x, Get(b, y))

\* multigrid_{V,W,F}_Cycle(level_depth, solution, rhs, residual)
RECURSIVE Cyc(_, _, _, _, _, _, _, _)
Cyc(c, kind, d, b0, sol, rhs, res, path) ==
  LET nres == Key(d + 1, "res")
      nerr == Key(d + 1, "err")
      nsol == Key(d + 1, "sol")
      rr == IF "swapRhs" \in Defects THEN Key(d + 1, "rhs") ELSE nerr
      b1 == (OpSmoothN(c.nu1, b0, FALSE, d, sol, rhs, res))
      b2 == (OpResidual(b1, d, res, rhs, sol))
      b5 == (IF d + 1 = c.L - 1
            THEN OpDirect(OpName(OpUnary(b2, "R", d, nres, res), nres, path), d + 1, nres)
            ELSE LET b3 == (OpName(OpUnary(b2, "R", d, rr, res), rr, path))
                     b4 == (IF "noZero" \in Defects THEN b3 ELSE OpAssignZero(b3, nres))
                 IN CASE kind = "V" -> Cyc(c, "V", d + 1, b4, nres, rr, nsol, Append(path, 1))
                      [] kind = "W" -> Cyc(c, "W", d + 1, (Cyc(c, "W", d + 1, b4, nres, rr, nsol, Append(path, 1))), nres, rr, nsol, Append(path, 2))
                      [] kind = "F" -> Cyc(c, "V", d + 1, (Cyc(c, "F", d + 1, b4, nres, rr, nsol, Append(path, 1))), nres, rr, nsol, Append(path, 2)))
      b6 == (OpUnary(b5, "P", d + 1, res, nres))
      b7 == (OpAdd(b6, sol, res))
  IN OpSmoothN(c.nu2, b7, FALSE, d, sol, rhs, res)

\* implicitlyExtrapolatedMultigrid_{V,W,F}_Cycle(0, solution, rhs, residual)
CycX(c, kind, b0, sol, rhs, res, xs, path) ==
  LET nres == Key(1, "res")
      nerr == Key(1, "err")
      nsol == Key(1, "sol")
      nrhs == Key(1, "rhs")
      b1 == (OpSmoothN(c.nu1, b0, xs, 0, sol, rhs, res))
      b2 == (OpResidual(b1, 0, res, rhs, sol))
      b5 == (IF 1 = c.L - 1
            THEN LET a1 == (OpUnary(b2, "RX", 0, nres, res))
                     a2 == (OpUnary(a1, "Inj", 0, nsol, sol))
                     a3 == (OpResidual(a2, 1, nerr, nrhs, nsol))
                     a4 == (OpName(OpLin(a3, nres, "4/3", nerr, "-1/3"), nres, path))
                 IN OpDirect(a4, 1, nres)
            ELSE LET a1 == (OpUnary(b2, "RX", 0, nerr, res))
                     a2 == (OpUnary(a1, "Inj", 0, nsol, sol))
                     a3 == (OpResidual(a2, 1, nres, nrhs, nsol))
                     a4 == (OpName(OpLin(a3, nerr, "4/3", nres, "-1/3"), nerr, path))
                     a5 == (OpAssignZero(a4, nres))
                 IN CASE kind = "V" -> Cyc(c, "V", 1, a5, nres, nerr, nsol, Append(path, 1))
                      [] kind = "W" -> Cyc(c, "W", 1, (Cyc(c, "W", 1, a5, nres, nerr, nsol, Append(path, 1))), nres, nerr, nsol, Append(path, 2))
                      [] kind = "F" -> Cyc(c, "V", 1, (Cyc(c, "F", 1, a5, nres, nerr, nsol, Append(path, 1))), nres, nerr, nsol, Append(path, 2)))
      b6 == (OpUnary(b5, "PX", 1, res, nres))
      b7 == (OpAdd(b6, sol, res))
  IN OpSmoothN(c.nu2, b7, xs, 0, sol, rhs, res)

\* initializeSolution() with FMG: direct solve on the coarsest level, then the loop over levels
RECURSIVE CycN(_, _, _, _, _, _, _, _)
CycN(n, c, kind, d, b, ext, xs, i) ==
  IF n = 0 THEN b
  ELSE CycN(n - 1, c, kind, d,
            (IF d = 0 /\ ext THEN CycX(c, kind, b, Key(0, "sol"), Key(0, "rhs"), Key(0, "res"), xs, <<d, i>>)
                    ELSE Cyc(c, kind, d, b, Key(d, "sol"), Key(d, "rhs"), Key(d, "res"), <<d, i>>)), ext, xs, i + 1)
RECURSIVE FMGLoop(_, _, _, _, _, _, _)
FMGLoop(c, kind, its, cur, b, ext, xs) ==     \* for (current_level = cur; current_level > 0; --current_level)
  IF cur <= 0 THEN b
  ELSE LET b1 == (OpUnary(b, "FI", cur, Key(cur - 1, "sol"), Key(cur, "sol")))
       IN FMGLoop(c, kind, its, cur - 1, CycN(its, c, kind, cur - 1, b1, ext, xs, 1), ext, xs)
InitFMG(c, kind, its, b, ext, xs) ==
  LET top == c.L - 1
      b1 == (OpDirect(OpCopy(b, Key(top, "sol"), Key(top, "rhs")), top, Key(top, "sol")))
  IN FMGLoop(c, kind, its, IF "F8" \in Defects THEN top - 1 ELSE top, b1, ext, xs)

\* allocation discipline of Level::Level and the content of the vectors when a cycle starts
InitBuf(c, ext, fmg) ==
  [err |-> "", defs |-> <<>>,
   v |-> [k \in (0..(c.L - 1)) \X Fields |->
            LET l == k[1]
                f == k[2]
            IN CASE f = "rhs" -> IF fmg \/ l = 0 \/ (l = 1 /\ ext) THEN F(l) ELSE Unalloc
                 [] f = "err" -> IF l > 0 THEN Stale(l, f) ELSE Unalloc
                 [] f = "sol" -> IF l = 0 THEN U0 ELSE Stale(l, f)
                 [] OTHER -> Stale(l, f)]]

(* ------------------------------ configurations --------------------------- *)
C == [L |-> cfg.L, nu1 |-> cfg.nu1, nu2 |-> cfg.nu2]
B0 == InitBuf(C, cfg.ext, cfg.fmg)
SolK == Key(0, "sol")
\* one top-level cycle from U0
AfterCycle == IF cfg.ext THEN CycX(C, cfg.kind, B0, SolK, Key(0, "rhs"), Key(0, "res"), cfg.xs, <<0, 1>>)
              ELSE Cyc(C, cfg.kind, 0, B0, SolK, Key(0, "rhs"), Key(0, "res"), <<0, 1>>)
IdealCycle == IF cfg.ext THEN MGX(C, cfg.kind, U0, F(0), cfg.xs, <<0, 1>>, <<>>) ELSE MG(C, cfg.kind, 0, U0, F(0), <<0, 1>>, <<>>)
\* FMG start-up (all vectors stale, finest solution stale too)
BF == [B0 EXCEPT !.v[SolK] = Stale(0, "sol")]
AfterFMG == InitFMG(C, cfg.fkind, cfg.its, BF, cfg.ext, cfg.xs)
IdealFMG == FMGStart(C, cfg.fkind, cfg.its, cfg.ext, cfg.xs)

Kinds == {"V", "W", "F"}
Init ==
  /\ cfg \in [L : LSet, nu1 : NuSet, nu2 : NuSet, kind : Kinds, ext : BOOLEAN, xs : BOOLEAN,
              fmg : BOOLEAN, its : ItsSet, fkind : Kinds]
  /\ (cfg.xs => cfg.ext) /\ (~cfg.fmg => cfg.its = 0 /\ cfg.fkind = "V") /\ (cfg.fmg => cfg.kind = "V")
  /\ phase = "cfg" /\ result = [none |-> TRUE]
\* one step: run the code-shaped machine and the mathematical definition for this configuration
Next == /\ phase = "cfg" /\ phase' = "done" /\ UNCHANGED cfg
        /\ result' = IF cfg.fmg THEN [after |-> AfterFMG, ideal |-> IdealFMG, before |-> BF]
                     ELSE [after |-> AfterCycle, ideal |-> IdealCycle, before |-> B0]
Spec == Init /\ [][Next]_vars

Done == phase = "done"
Refines == result.after.err = "" /\ Get(result.after, SolK) = result.ideal.t /\ result.after.defs = result.ideal.defs
Clean == ~Bad(result.ideal.t) /\ \A i \in 1..Len(result.ideal.defs) : ~Bad(result.ideal.defs[i].d)
CycleRefinesMG == (Done /\ ~cfg.fmg) => Refines
NoStale == (Done /\ ~cfg.fmg) => (Refines => Clean)
RhsPreserved == Done => \A l \in 0..(cfg.L - 1) : Get(result.after, Key(l, "rhs")) = Get(result.before, Key(l, "rhs"))
StartRefinesFMG == (Done /\ cfg.fmg) => (Refines /\ Clean)

Emit == IF EmitTerms /\ Done
        THEN PrintT("@@CASE " \o ToJson([cfg |-> cfg, term |-> result.ideal.t,
                                         defs |-> result.ideal.defs]))
        ELSE TRUE
=============================================================================
