SPECIFICATION Spec
CONSTANTS
  Obj = {1,2}
  Class = "Diag"
  Shapes = {1,3}
  Variants = {1,2}
  FIXED = {}
  GenCases = TRUE
  MaxHist = 7
VIEW EdgeView
CONSTRAINT Bound

