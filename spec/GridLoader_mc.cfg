SPECIFICATION Spec
CONSTANTS
  MaxLen = 4
  FIXED = {"F10"}
  EmitTables = FALSE
INVARIANTS AcceptsOnlyWholeFiles RejectsFaults
