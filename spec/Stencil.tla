------------------------------- MODULE Stencil -------------------------------
(***************************************************************************)
(* The discrete operator A of GMGPolar (documented 9-point stencil, the    *)
(* artificial 7-point closure across the origin, Dirichlet rows) in exact  *)
(* rational arithmetic, transcribed from the take (gather) form            *)
(* src/Residual/ResidualTake/applyResidualTake.cpp, and the structure the  *)
(* smoothers rely on: line partition (circles / radial lines), zebra       *)
(* colours, sweep order, coarse-node set of the extrapolated smoother.     *)
(* A state is one instance: grid (integer spacings, split), boundary mode, *)
(* integer coefficient fields arr, art, |det DF| per node and beta per     *)
(* radius (att follows from arr * att - art^2 / 4 = alpha^2 / 4, alpha = 1)*)
(* Properties C03/C05/C06/C07 (design level; the real operators are bound  *)
(* to the emitted tables by probing with unit vectors).                    *)
(***************************************************************************)
EXTENDS Integers, Sequences, FiniteSets, TLC, Json, Frac

CONSTANTS NrSet, NtSet, Sp, R0Set, PaSet, NcSet,
          Period,      \* radial spacings repeat with this period (0 = arbitrary): keeps larger grids enumerable
          EmitTables

VARIABLES g, A     \* A: the matrix rows of the instance, computed once per state
vars == <<g, A>>
\* g = [nr, nt, nc, h (Seq nr-1), k (Seq nt), r0, dir (DirBC_Interior), pa (parameters of the coefficient fields)]

(* ------------------------------ geometry --------------------------------- *)
H(i) == g.h[i + 1]
K(u) == g.k[(u % g.nt) + 1]
WT(u) == u % g.nt
Nodes == (0..(g.nr - 1)) \X (0..(g.nt - 1))
\* coefficient fields: small integer patterns of the node index (all realisable by a synthetic mapping with alpha = 1)
Arr(n) == 1 + ((g.pa[1] * n[1] + g.pa[2] * n[2]) % 2)
Art(n) == ((g.pa[3] * n[1] + g.pa[4] * n[2] + g.pa[5]) % 3) - 1
Det(n) == 1 + ((g.pa[6] * n[1] + n[2] * g.pa[7]) % 2)
Beta(i) == g.pa[8] * (1 + (i % 2))
FArr(n) == FInt(Arr(n))
FArt(n) == FInt(Art(n))
FAtt(n) == FNorm(1 + Art(n) * Art(n), 4 * Arr(n))

Dirichlet(n) == n[1] = g.nr - 1 \/ (n[1] = 0 /\ g.dir)
Half == FNorm(1, 2)
Quarter == FNorm(1, 4)

(* --------------------- the documented stencil (take form) ---------------- *)
\* contributions of row c as a sequence of [m |-> column node, w |-> fraction]
Con(m, w) == [m |-> m, w |-> w]
RowOf(c) ==
  LET i == c[1]
      j == c[2]
  IN IF Dirichlet(c) THEN <<Con(c, FOne)>>
  ELSE
  LET across == i = 0                                   \* across-origin closure (only reached when ~g.dir)
      h1 == IF across THEN 2 * g.r0 ELSE H(i - 1)
      h2 == H(i)
      k1 == K(j - 1)
      k2 == K(j)
      c1 == FNorm(k1 + k2, 2 * h1)
      c2 == FNorm(k1 + k2, 2 * h2)
      c3 == FNorm(h1 + h2, 2 * k1)
      c4 == FNorm(h1 + h2, 2 * k2)
      left == IF across THEN <<0, WT(j + g.nt \div 2)>> ELSE <<i - 1, j>>
      right == <<i + 1, j>>
      bottom == <<i, WT(j - 1)>>
      top == <<i, WT(j + 1)>>
      bl == <<i - 1, WT(j - 1)>>
      br == <<i + 1, WT(j - 1)>>
      tl == <<i - 1, WT(j + 1)>>
      tr == <<i + 1, WT(j + 1)>>
      wl == FMul(c1, FAdd(FArr(c), FArr(left)))
      wr == FMul(c2, FAdd(FArr(c), FArr(right)))
      wb == FMul(c3, FAdd(FAtt(c), FAtt(bottom)))
      wt == FMul(c4, FAdd(FAtt(c), FAtt(top)))
      mass == FMul(FNorm((h1 + h2) * (k1 + k2) * Beta(i) * Det(c), 4), FOne)
      core == << Con(c, FAdd(mass, FAdd(FAdd(wl, wr), FAdd(wb, wt)))),
                 Con(left, FNeg(wl)), Con(right, FNeg(wr)), Con(bottom, FNeg(wb)), Con(top, FNeg(wt)),
                 Con(br, FMul(Quarter, FAdd(FArt(right), FArt(bottom)))),
                 Con(tr, FNeg(FMul(Quarter, FAdd(FArt(right), FArt(top))))) >>
  IN IF across THEN core
     ELSE core \o << Con(bl, FNeg(FMul(Quarter, FAdd(FArt(left), FArt(bottom))))),
                     Con(tl, FMul(Quarter, FAdd(FArt(left), FArt(top)))) >>

RECURSIVE SumFor(_, _, _)
SumFor(row, m, i) == IF i > Len(row) THEN FZero ELSE FAdd(IF row[i].m = m THEN row[i].w ELSE FZero, SumFor(row, m, i + 1))
Coef(c, m) == SumFor(A[c], m, 1)            \* A[c][m]
Cols(c) == {A[c][i].m : i \in 1..Len(A[c])}

(* -------------------------------- properties ----------------------------- *)
\* C03: Dirichlet rows are the identity, every other row is the 9-point (7-point across the origin) stencil
DirichletIdentity == \A c \in Nodes : Dirichlet(c) => (Cols(c) = {c} /\ Coef(c, c) = FOne)
Neigh(c, m) == LET di == m[1] - c[1]
                   dj == (m[2] - c[2]) % g.nt
               IN di \in {-1, 0, 1} /\ dj \in {0, 1, g.nt - 1}
StencilShape == \A c \in Nodes : ~Dirichlet(c) =>
                  IF c[1] = 0
                  THEN /\ Cardinality(Cols(c)) <= 7
                       /\ \A m \in Cols(c) : (Neigh(c, m) /\ m[1] >= 0) \/ m = <<0, WT(c[2] + g.nt \div 2)>>
                  ELSE Cardinality(Cols(c)) <= 9 /\ \A m \in Cols(c) : Neigh(c, m)
\* C05: symmetric on the non-Dirichlet unknowns, for arbitrary coefficient fields and spacings
Symmetric == \A c \in Nodes : ~Dirichlet(c) => \A m \in Cols(c) : ~Dirichlet(m) => Coef(c, m) = Coef(m, c)
\* constants are in the kernel up to the mass term: row sum = 1/4 (h1+h2)(k1+k2) beta |det DF|
RECURSIVE RowSum(_, _)
RowSum(row, i) == IF i > Len(row) THEN FZero ELSE FAdd(row[i].w, RowSum(row, i + 1))
\* (not across the origin: the artificial 7-point closure drops two mixed-derivative terms, so its row sum keeps 1/4 (art_b - art_t))
RowSumIsMass == \A c \in Nodes : (~Dirichlet(c) /\ c[1] > 0) =>
                  LET h1 == IF c[1] = 0 THEN 2 * g.r0 ELSE H(c[1] - 1)
                  IN RowSum(A[c], 1) = FNorm((h1 + H(c[1])) * (K(c[2] - 1) + K(c[2])) * Beta(c[1]) * Det(c), 4)
\* diagonal dominance structure: positive diagonal, non-positive direct neighbours (M-matrix part)
SignStructure == \A c \in Nodes : ~Dirichlet(c) => FPos(Coef(c, c))

(* ------------------------- discretised right-hand side -------------------- *)
\* build_rhs_f + discretize_rhs_f (src/GMGPolar/build_rhs_f.cpp): Dirichlet nodes carry the boundary data (weight 1 on u_D),
\* every other node the source term times the quadrature weight 1/4 (h1+h2)(k1+k2) |det DF| (h1 = 2 R0 across the origin)
RhsWeight(c) ==
  IF Dirichlet(c) THEN FOne
  ELSE LET h1 == IF c[1] = 0 THEN 2 * g.r0 ELSE H(c[1] - 1)
       IN FNorm((h1 + H(c[1])) * (K(c[2] - 1) + K(c[2])) * Det(c), 4)
\* the zeroth-order term of the operator and the right-hand side use the same quadrature weight: the constant function
\* u = 1 solves the discrete system exactly for f = beta on every 9-point row (where also the mixed terms cancel)
ConstantSolutionExact == \A c \in Nodes : (~Dirichlet(c) /\ c[1] > 0) => RowSum(A[c], 1) = FMul(FInt(Beta(c[1])), RhsWeight(c))
\* the same quantities on the next coarser grid (every second node): spacings add up, coefficients are those of the coarse nodes
HC2(i) == H(2 * i) + H(2 * i + 1)
KC2(u) == K(2 * u) + K(2 * u + 1)
CoarseRhsWeight(c) ==      \* c = coarse multi-index
  LET fine == <<2 * c[1], 2 * c[2]>>
      nrc == (g.nr + 1) \div 2
  IN IF c[1] = nrc - 1 \/ (c[1] = 0 /\ g.dir) THEN FOne
     ELSE LET h1 == IF c[1] = 0 THEN 2 * g.r0 ELSE HC2(c[1] - 1)
          IN FNorm((h1 + HC2(c[1])) * (KC2(c[2] - 1) + KC2(c[2])) * Det(fine), 4)

(* -------------------- line partition, colours, sweep order ---------------- *)
\* line of a node: circle i_r for i_r < nc, radial line theta otherwise
LineOf(n) == IF n[1] < g.nc THEN <<"C", n[1]>> ELSE <<"R", n[2]>>
Lines == {LineOf(n) : n \in Nodes}
NodesOf(l) == {n \in Nodes : LineOf(n) = l}
\* the outermost circle is black; circles alternate inwards; radial lines alternate with theta (even = black)
Black(l) == IF l[1] = "C" THEN (g.nc - 1 - l[2]) % 2 = 0 ELSE l[2] % 2 = 0
\* sweep: black circles, white circles, black radial lines, white radial lines
Phase(l) == IF l[1] = "C" THEN (IF Black(l) THEN 1 ELSE 2) ELSE (IF Black(l) THEN 3 ELSE 4)
Coupled(l1, l2) == \E c \in NodesOf(l1) : ~Dirichlet(c) /\ \E m \in Cols(c) : LineOf(m) = l2 /\ ~FIsZero(Coef(c, m))
\* C06: lines relaxed simultaneously (same phase) are not coupled, so the simultaneous update is an exact block relaxation;
\* the white circles may also overlap in time with the black radial lines (nowait in the code)
\* smoothing levels have at least two circles and three radial nodes per line
SmootherDomain == g.nc >= 2 /\ g.nr - g.nc >= 3
SamePhaseUncoupled == SmootherDomain => \A l1 \in Lines, l2 \in Lines : (l1 # l2 /\ Phase(l1) = Phase(l2)) => ~Coupled(l1, l2)
OverlapUncoupled == SmootherDomain => \A l1 \in Lines, l2 \in Lines : (Phase(l1) = 2 /\ Phase(l2) = 3) => (~Coupled(l1, l2) /\ ~Coupled(l2, l1))
\* a line block is tridiagonal (cyclic for circles; circle 0 additionally couples antipodal nodes across the origin)
LineBlockShape == \A l \in Lines : \A c \in NodesOf(l) : ~Dirichlet(c) => \A m \in Cols(c) : LineOf(m) = l =>
                    IF l[1] = "C" THEN m[2] \in {c[2], WT(c[2] + 1), WT(c[2] - 1)} \/ (l[2] = 0 /\ m[2] = WT(c[2] + g.nt \div 2))
                    ELSE m[1] \in {c[1] - 1, c[1], c[1] + 1}
\* C07: nodes of the next coarser grid; on a line through coarse nodes the fine-only nodes do not couple with each other
CoarseNode(n) == n[1] % 2 = 0 /\ n[2] % 2 = 0
ExtrapolatedLineKinds == \A l \in Lines : (\E n \in NodesOf(l) : CoarseNode(n)) =>
                           \A c \in NodesOf(l) : (~CoarseNode(c) /\ ~Dirichlet(c)) => \A m \in Cols(c) : (LineOf(m) = l /\ m # c /\ ~FIsZero(Coef(c, m))) => (CoarseNode(m) \/ (l = <<"C", 0>> /\ m[2] = WT(c[2] + g.nt \div 2)))

(* -------------------------------- instances ------------------------------ *)
Double(sp) == [i \in 1..(2 * Len(sp)) |-> sp[((i - 1) % Len(sp)) + 1]]
Init == /\ \E nr \in NrSet, nt \in NtSet :
          \E h \in [1..(nr - 1) -> Sp], kh \in [1..(nt \div 2) -> Sp], nc \in NcSet \cap (0..nr), r0 \in R0Set, dir \in BOOLEAN,
             pa \in PaSet :
             /\ (Period > 0 => \A i \in 1..(nr - 1 - Period) : h[i] = h[i + Period])
             /\ (Period > 0 => \A j \in 1..(nt \div 2 - Period) : kh[j] = kh[j + Period])
             /\ g = [nr |-> nr, nt |-> nt, nc |-> nc, h |-> h, k |-> Double(kh), r0 |-> r0, dir |-> dir, pa |-> pa]
        /\ A = [c \in Nodes |-> RowOf(c)]
Next == UNCHANGED vars
Spec == Init /\ [][Next]_vars

(* ------------------------------ expectation table ------------------------ *)
NodeSeq == [n \in 1..(g.nr * g.nt) |-> <<(n - 1) \div g.nt, (n - 1) % g.nt>>]
SortedLines == LET ls == {<<Phase(l), l[2], l>> : l \in Lines}
                   RECURSIVE srt(_)
                   srt(S) == IF S = {} THEN <<>> ELSE LET m == CHOOSE x \in S : \A y \in S : (x[1] < y[1]) \/ (x[1] = y[1] /\ x[2] <= y[2]) IN <<m[3]>> \o srt(S \ {m})
               IN srt(ls)
Table == [nr |-> g.nr, nt |-> g.nt, nc |-> g.nc, h |-> g.h, k |-> g.k, r0 |-> g.r0, dir |-> g.dir,
          arr |-> [n \in 1..(g.nr * g.nt) |-> Arr(NodeSeq[n])], art |-> [n \in 1..(g.nr * g.nt) |-> Art(NodeSeq[n])],
          det |-> [n \in 1..(g.nr * g.nt) |-> Det(NodeSeq[n])], beta |-> [i \in 1..g.nr |-> Beta(i - 1)],
          rows |-> [n \in 1..(g.nr * g.nt) |-> A[NodeSeq[n]]],
          rhsw |-> [n \in 1..(g.nr * g.nt) |-> RhsWeight(NodeSeq[n])],
          rhswc |-> IF g.nr % 2 = 1 /\ g.nt % 4 = 0 THEN [n \in 1..(((g.nr + 1) \div 2) * (g.nt \div 2)) |-> CoarseRhsWeight(<<(n - 1) \div (g.nt \div 2), (n - 1) % (g.nt \div 2)>>)] ELSE <<>>,
          lines |-> [i \in 1..Len(SortedLines) |-> [kind |-> SortedLines[i][1], id |-> SortedLines[i][2], phase |-> Phase(SortedLines[i])]]]
Emit == IF EmitTables THEN PrintT("@@CASE " \o ToJson(Table)) ELSE TRUE
=============================================================================
