----------------------------- MODULE OptionSpace -----------------------------
(***************************************************************************)
(* The space of option combinations reachable through the setters and the  *)
(* command line (src/GMGPolar/parser.cpp, gmgpolar.cpp), and the documented *)
(* rule deciding which combinations setup()/solve() must REJECT and which  *)
(* must RUN (property C20).  A behaviour is a walk through the space: each *)
(* step sets one option; TLC simulation prints the configuration reached   *)
(* together with Outcome(cfg), and the harness runs it through the API and *)
(* through the gmgpolar binary.                                            *)
(***************************************************************************)
EXTENDS Integers, Sequences, TLC, Json

CONSTANTS Depth,  \* number of option changes per generated configuration
          Mode    \* "all": everything reachable (C20);  "c01": the supported configuration set of C01

VARIABLES cfg, steps
vars == <<cfg, steps>>

DomainAll == [
  nr_exp |-> {2, 3, 4}, ntheta_exp |-> {0, 2, 3, 4, 5},   \* 0 encodes the automatic choice (-1 on the command line)
  divideBy2 |-> {0, 1}, maxLevels |-> {0, 1, 2, 3, 6},     \* 0 encodes "no cap" (-1)
  DirBC |-> {0, 1}, geometry |-> {0, 1, 2}, problem |-> {0, 1, 2},
  ext |-> {0, 1, 2, 3, 7},                                  \* 7: not an enumerator
  fmg |-> {0, 1}, fmgIts |-> {0, 1, 3}, fmgCycle |-> {0, 1, 2, 5},
  cycle |-> {0, 1, 2, 5}, pre |-> {0, 1, 2}, post |-> {0, 1, 2},
  maxIter |-> {0, 1, 6}, norm |-> {0, 1, 2, 9},
  absOn |-> {0, 1}, relOn |-> {0, 1},
  method |-> {0, 1, 4},                                     \* take, give, invalid
  cacheDP |-> {0, 1}, cacheDG |-> {0, 1}, threads |-> {1, 3}, exact |-> {0, 1}, alpha |-> {0, 1, 2, 3}, beta |-> {0, 1} ]

\* the configuration set C01 quantifies over: shipped geometry x coefficient x problem triples, both boundary treatments,
\* both strategies (take with its caches), extrapolation none/implicit/combined (and full grid smoothing for the
\* 'a reported stop is true' half), every cycle, FMG with every cycle, >= 1 pre and post smoothing step, level caps,
\* all norm types, finest grid at least 17 x 32
DomainC01 == [
  nr_exp |-> {4, 5}, ntheta_exp |-> {0, 5}, divideBy2 |-> {0}, maxLevels |-> {0, 2, 3},
  DirBC |-> {0, 1}, geometry |-> {0, 1, 2}, problem |-> {0, 1, 2},
  ext |-> {0, 1, 2, 3}, fmg |-> {0, 1}, fmgIts |-> {1, 2, 3}, fmgCycle |-> {0, 1, 2},
  cycle |-> {0, 1, 2}, pre |-> {1, 2}, post |-> {1, 2}, maxIter |-> {150}, norm |-> {0, 1, 2},
  absOn |-> {0, 1}, relOn |-> {0, 1}, method |-> {0, 1}, cacheDP |-> {0, 1}, cacheDG |-> {0, 1}, threads |-> {1}, exact |-> {1},
  alpha |-> {0, 1, 2, 3}, beta |-> {0, 1} ]
Domain == IF Mode = "c01" THEN DomainC01 ELSE DomainAll
\* combinations inside the walk that C01 does not quantify over
Supported(c) == /\ (c.absOn = 1 \/ c.relOn = 1)
                /\ (c.method = 0 => c.cacheDP = 1 /\ c.cacheDG = 1)

Default == [ nr_exp |-> 4, ntheta_exp |-> 0, divideBy2 |-> 0, maxLevels |-> 0, DirBC |-> 0, geometry |-> 0, problem |-> 0,
             ext |-> 0, fmg |-> 0, fmgIts |-> 1, fmgCycle |-> 0, cycle |-> 0, pre |-> 1, post |-> 1, maxIter |-> 6, norm |-> 0,
             absOn |-> 1, relOn |-> 1, method |-> 1, cacheDP |-> 1, cacheDG |-> 1, threads |-> 1, exact |-> 1,
             alpha |-> 1, beta |-> 0 ]

Pow2(e) == IF e = 0 THEN 1 ELSE IF e = 1 THEN 2 ELSE IF e = 2 THEN 4 ELSE IF e = 3 THEN 8 ELSE IF e = 4 THEN 16
           ELSE IF e = 5 THEN 32 ELSE IF e = 6 THEN 64 ELSE 128
\* uniform grid (anisotropic_factor = 0): nr = 2^nr_exp + 1 refined divideBy2 times
Nr(c) == Pow2(c.nr_exp) * Pow2(c.divideBy2) + 1
CeilLog2(n) == CHOOSE e \in 0..10 : Pow2(e) >= n /\ (e = 0 \/ Pow2(e - 1) < n)
Nt(c) == (IF c.ntheta_exp = 0 THEN Pow2(CeilLog2(Pow2(c.nr_exp) + 1)) ELSE Pow2(c.ntheta_exp)) * Pow2(c.divideBy2)

\* chooseNumberOfLevels (setup.cpp)
RECURSIVE RadialLevels(_)
RadialLevels(n) == IF (n + 1) \div 2 >= 5 /\ (n + 1) % 2 = 0 THEN 1 + RadialLevels((n + 1) \div 2) ELSE 1
RECURSIVE AngularLevels(_)
AngularLevels(n) == IF n \div 2 >= 4 /\ n % 2 = 0 /\ (n \div 2) % 2 = 0 THEN 1 + AngularLevels(n \div 2) ELSE 1
Min(a, b) == IF a < b THEN a ELSE b
Levels(c) == LET g == Min(RadialLevels(Nr(c)), AngularLevels(Nt(c)))
             IN IF c.maxLevels > 0 THEN Min(c.maxLevels, g) ELSE g

\* ---- the documented rule
\* a grid needs an even number >= 4... the constructor itself rejects fewer than 2 angles / odd counts
GridRejected(c) == Nt(c) < 2
Reasons(c) ==
     (IF c.method = 0 /\ (c.cacheDP = 0 \/ c.cacheDG = 0) THEN {"take-without-caches"} ELSE {})
  \cup (IF c.method \notin {0, 1} THEN {"invalid-method"} ELSE {})
  \cup (IF Levels(c) < 2 THEN {"too-few-levels"} ELSE {})
  \cup (IF c.ext \notin {0, 1, 2, 3} THEN {"invalid-extrapolation"} ELSE {})
  \cup (IF c.cycle \notin {0, 1, 2} /\ c.maxIter > 0 THEN {"invalid-cycle"} ELSE {})
  \cup (IF c.fmgCycle \notin {0, 1, 2} /\ c.fmg = 1 /\ c.fmgIts > 0 THEN {"invalid-fmg-cycle"} ELSE {})
  \cup (IF c.norm \notin {0, 1, 2} /\ c.maxIter > 0 /\ (c.absOn = 1 \/ c.relOn = 1) THEN {"invalid-norm"} ELSE {})
Outcome(c) == IF Reasons(c) = {} THEN "Runs" ELSE "Rejected"
\* inside the configuration set of C01 a finite solution is required (supported modes, at least one pre and post smoothing step)
InC01Set(c) == Outcome(c) = "Runs" /\ c.pre >= 1 /\ c.post >= 1

Names == DOMAIN Default

Init == cfg = [o \in DOMAIN DomainAll |-> IF o = "maxIter" /\ Mode = "c01" THEN 150 ELSE Default[o]] /\ steps = 0
Set(o, v) == /\ steps < Depth /\ v \in Domain[o] /\ cfg[o] # v
             /\ cfg' = [cfg EXCEPT ![o] = v] /\ steps' = steps + 1
Next == \E o \in Names : \E v \in Domain[o] : Set(o, v)
Spec == Init /\ [][Next]_vars

\* sanity of the rule itself: two levels at least whenever it says Runs
RuleSound == Outcome(cfg) = "Runs" => Levels(cfg) >= 2 /\ cfg.method \in {0, 1}
Emit == IF steps = Depth /\ (Mode = "c01" => Supported(cfg))
        THEN PrintT("@@CASE " \o ToJson([cfg |-> cfg, outcome |-> Outcome(cfg), reasons |-> Reasons(cfg), levels |-> Levels(cfg),
                                         nr |-> Nr(cfg), nt |-> Nt(cfg), c01 |-> InC01Set(cfg), rate |-> (cfg.ext # 2)]))
        ELSE TRUE
=============================================================================
