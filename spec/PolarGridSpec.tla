---------------------------- MODULE PolarGridSpec ----------------------------
(***************************************************************************)
(* Node numbering, periodic wrapping, neighbours, spacings, circle/radial  *)
(* line splitting and coarsening of PolarGrid                              *)
(* (include/PolarGrid/polargrid.inl, src/PolarGrid/polargrid.cpp), as a    *)
(* state machine over the coarsening chain: a state is one grid, the only  *)
(* action is Coarsen.  Coordinates are integers (radii in units, angles in *)
(* units of 2*pi/M).  Operators transcribe the C++ with C++ semantics      *)
(* (CRem = truncating %, CDiv = truncating /; the power-of-two path uses   *)
(* the bit mask, which on two's complement integers is the mathematical    *)
(* modulus - the conformance run checks the real mask on negative values). *)
(* Property C17: the invariants below hold for every grid of the chain.    *)
(***************************************************************************)
EXTENDS Integers, Sequences, FiniteSets, TLC, Json

CONSTANTS NrSet, NtSet,     \* initial grid sizes
          SpacingSet,       \* radial / angular spacings (units) a non-uniform grid may use
          Uniform,          \* TRUE: only uniform spacing 1 (index logic does not depend on spacings)
          EmitTables

VARIABLES g, parent
vars == <<g, parent>>

(* ------------------------- C++ integer arithmetic ------------------------ *)
CDiv(a, b) == IF a >= 0 THEN a \div b ELSE -((-a) \div b)        \* truncation toward zero, b > 0
CRem(a, b) == a - b * CDiv(a, b)
IsPow2(n) == n \in {1, 2, 4, 8, 16, 32, 64, 128}

(* --------------------------------- grid ---------------------------------- *)
\* g = [nr, nt, nc (number of smoother circles), rad (Seq of nr ints), ang (Seq of nt+1 ints), auto (split chosen automatically)]
Nodes(G) == G.nr * G.nt
LenRad(G) == G.nr - G.nc
NCirc(G) == G.nc * G.nt

\* wrapThetaIndex
Wrap(G, u) == IF IsPow2(G.nt) THEN u % G.nt                         \* u & (ntheta - 1)
              ELSE CRem(CRem(u, G.nt) + G.nt, G.nt)
\* index(r_index, unwrapped_theta_index)
Index(G, ir, u) == LET it == Wrap(G, u) IN
  IF ir < G.nc THEN it + G.nt * ir ELSE NCirc(G) + ir - G.nc + LenRad(G) * it
FastIndex(G, ir, it) == IF ir < G.nc THEN it + G.nt * ir ELSE NCirc(G) + ir - G.nc + LenRad(G) * it
\* multiIndex(node_index, r_index, theta_index)  (the .inl version) and the std::div version
MultiIndex(G, n) ==
  IF n < NCirc(G) THEN <<CDiv(n, G.nt), IF IsPow2(G.nt) THEN n % G.nt ELSE CRem(n, G.nt)>>
  ELSE <<G.nc + CRem(n - NCirc(G), LenRad(G)), CDiv(n - NCirc(G), LenRad(G))>>
MultiIndexRef(G, n) ==
  IF n < NCirc(G) THEN <<CDiv(n, G.nt), CRem(n, G.nt)>>
  ELSE <<G.nc + CRem(n - NCirc(G), LenRad(G)), CDiv(n - NCirc(G), LenRad(G))>>

\* spacings
RadSp(G, i) == G.rad[i + 2] - G.rad[i + 1]          \* radialSpacing(i), i in 0..nr-2
AngSp(G, u) == LET i == Wrap(G, u) IN G.ang[i + 2] - G.ang[i + 1]
\* adjacentNeighborsOf: <<<<inner, outer>>, <<left, right>>>>, -1 = no neighbour
Adjacent(G, ir, it) ==
  <<<<IF ir - 1 < 0 THEN -1 ELSE FastIndex(G, ir - 1, it), IF ir + 1 >= G.nr THEN -1 ELSE FastIndex(G, ir + 1, it)>>,
    <<FastIndex(G, ir, IF it - 1 < 0 THEN it - 1 + G.nt ELSE it - 1), FastIndex(G, ir, IF it + 1 >= G.nt THEN it + 1 - G.nt ELSE it + 1)>>>>
Diagonal(G, ir, it) ==
  LET tm == IF it - 1 < 0 THEN it - 1 + G.nt ELSE it - 1
      tp == IF it + 1 >= G.nt THEN it + 1 - G.nt ELSE it + 1
  IN <<<<IF ir - 1 < 0 THEN -1 ELSE FastIndex(G, ir - 1, tm), IF ir + 1 >= G.nr THEN -1 ELSE FastIndex(G, ir + 1, tm)>>,
       <<IF ir - 1 < 0 THEN -1 ELSE FastIndex(G, ir - 1, tp), IF ir + 1 >= G.nr THEN -1 ELSE FastIndex(G, ir + 1, tp)>>>>

\* explicit splitting radius s (in units): std::lower_bound = number of radii < s
SplitExplicit(rad, s) == IF s < rad[1] THEN 0 ELSE Cardinality({i \in 1..Len(rad) : rad[i] < s})
\* automatic split: first i_r in 2..nr-3 with (2 pi / ntheta) / h_i * r_i > 1, i.e. pi > ntheta * h_i / (2 r_i); at least 3
\* circles when nr > 5.  pi is bracketed by 333/106 < pi < 355/113; a comparison falling in the gap is undecided (-1).
PiGreater(p, q) == IF p * 106 <= 333 * q THEN 1 ELSE IF p * 113 >= 355 * q THEN 0 ELSE -1     \* pi > p/q ?
RECURSIVE AutoFrom(_, _, _, _)
AutoFrom(rad, nt, i, nr) ==      \* i = C++ i_r
  IF i >= nr - 2 THEN 2
  ELSE LET c == PiGreater(nt * (rad[i + 1] - rad[i]), 2 * rad[i + 1])
       IN IF c = 1 THEN i ELSE IF c = -1 THEN -1 ELSE AutoFrom(rad, nt, i + 1, nr)
SplitAuto(rad, nt) ==
  LET nr == Len(rad)
      a == AutoFrom(rad, nt, 2, nr)
  IN IF a = -1 THEN -1 ELSE IF a < 3 /\ nr > 5 THEN 3 ELSE IF a > nr THEN nr ELSE a

MkGrid(rad, ang, nc, auto) == [nr |-> Len(rad), nt |-> Len(ang) - 1, nc |-> nc, rad |-> rad, ang |-> ang, auto |-> auto]

\* coarseningGrid: every second radius and angle, automatic split
\* the coarse angles must again contain the antipodal partner of every angle: ntheta / 2 even
CanCoarsen(G) == (G.nr - 1) % 2 = 0 /\ G.nt % 2 = 0 /\ G.nr >= 3 /\ G.nt >= 4 /\ (G.nt \div 2) % 2 = 0
CoarseRad(G) == [i \in 1..((G.nr + 1) \div 2) |-> G.rad[2 * (i - 1) + 1]]
CoarseAng(G) == [j \in 1..(G.nt \div 2 + 1) |-> G.ang[2 * (j - 1) + 1]]

(* ------------------------------ state machine ---------------------------- *)
RECURSIVE Cum(_, _)
Cum(sp, n) == IF n = 0 THEN 0 ELSE Cum(sp, n - 1) + sp[n]
RadFrom(sp, r0) == [i \in 1..(Len(sp) + 1) |-> r0 + Cum(sp, i - 1)]
\* angles: first half arbitrary spacings, second half repeats them (antipodal partners)
AngFrom(sp) == LET h == Len(sp) IN [i \in 1..(2 * h + 1) |-> IF i <= h + 1 THEN Cum(sp, i - 1) ELSE Cum(sp, h) + Cum(sp, i - 1 - h)]

Init ==
  /\ parent = <<>>
  /\ \E nr \in NrSet, nt \in NtSet :
       \E rsp \in [1..(nr - 1) -> IF Uniform THEN {1} ELSE SpacingSet], asp \in [1..(nt \div 2) -> IF Uniform THEN {1} ELSE SpacingSet], r0 \in {1, 3} :
         LET rad == RadFrom(rsp, r0)
             ang == AngFrom(asp)
         IN \/ \E s \in 0..(rad[nr] + 1) : g = MkGrid(rad, ang, SplitExplicit(rad, s), FALSE)       \* every explicit splitting radius
            \/ SplitAuto(rad, nt) >= 0 /\ g = MkGrid(rad, ang, SplitAuto(rad, nt), TRUE)

Coarsen ==
  /\ CanCoarsen(g)
  /\ SplitAuto(CoarseRad(g), g.nt \div 2) >= 0
  /\ g' = MkGrid(CoarseRad(g), CoarseAng(g), SplitAuto(CoarseRad(g), g.nt \div 2), TRUE)
  /\ parent' = g
Next == Coarsen
Spec == Init /\ [][Next]_vars

(* -------------------------------- properties ----------------------------- *)
AllPos(G) == (0..(G.nr - 1)) \X (0..(G.nt - 1))
Bijection == LET img == {FastIndex(g, p[1], p[2]) : p \in AllPos(g)} IN img = 0..(Nodes(g) - 1)
InverseA == \A p \in AllPos(g) : MultiIndex(g, FastIndex(g, p[1], p[2])) = <<p[1], p[2]>>
InverseB == \A n \in 0..(Nodes(g) - 1) : LET m == MultiIndex(g, n) IN FastIndex(g, m[1], m[2]) = n /\ MultiIndexRef(g, n) = m
FastIsRef == \A p \in AllPos(g) : Index(g, p[1], p[2]) = FastIndex(g, p[1], p[2])
WrapPeriodic == \A u \in (-3 * g.nt)..(3 * g.nt) : Wrap(g, u) \in 0..(g.nt - 1) /\ (Wrap(g, u) - u) % g.nt = 0
Partition == /\ g.nc \in 0..g.nr
             /\ \A p \in AllPos(g) : (FastIndex(g, p[1], p[2]) < NCirc(g)) <=> (p[1] < g.nc)
\* circle nodes are numbered circle by circle, radial nodes line by line (what the smoothers' line solvers rely on)
LineMajor == \A p \in AllPos(g) :
               /\ (p[1] < g.nc /\ p[2] + 1 < g.nt) => FastIndex(g, p[1], p[2] + 1) = FastIndex(g, p[1], p[2]) + 1
               /\ (p[1] >= g.nc /\ p[1] + 1 < g.nr) => FastIndex(g, p[1] + 1, p[2]) = FastIndex(g, p[1], p[2]) + 1
NeighboursConsistent == \A p \in AllPos(g) :
   LET a == Adjacent(g, p[1], p[2]) IN
     /\ (a[1][2] # -1) => MultiIndex(g, a[1][2]) = <<p[1] + 1, p[2]>>
     /\ (a[1][1] # -1) => MultiIndex(g, a[1][1]) = <<p[1] - 1, p[2]>>
     /\ MultiIndex(g, a[2][2]) = <<p[1], (p[2] + 1) % g.nt>>
     /\ MultiIndex(g, a[2][1]) = <<p[1], (p[2] - 1) % g.nt>>
SpacingsConsistent == /\ \A i \in 0..(g.nr - 2) : RadSp(g, i) > 0
                      /\ \A u \in (-g.nt)..(2 * g.nt) : AngSp(g, u) > 0 /\ AngSp(g, u) = AngSp(g, u + g.nt)
Antipodal == \A j \in 0..(g.nt - 1) : g.ang[Wrap(g, j + g.nt \div 2) + 1] = (g.ang[j + 1] + g.ang[g.nt + 1] \div 2) % g.ang[g.nt + 1]
\* the automatic split leaves what the smoothers assume
AutoSplitAssumptions == g.auto => /\ (g.nr >= 5 => g.nc >= 2 /\ LenRad(g) >= 3)
                                  /\ (g.nr > 5 => g.nc >= 3)
                                  /\ g.nc <= g.nr
\* coarsening keeps every second node in each direction, including both boundaries
CoarsenKeeps == parent # <<>> =>
   /\ g.nr = (parent.nr + 1) \div 2 /\ g.nt = parent.nt \div 2
   /\ \A i \in 1..g.nr : g.rad[i] = parent.rad[2 * i - 1]
   /\ \A j \in 1..(g.nt + 1) : g.ang[j] = parent.ang[2 * j - 1]
   /\ g.rad[1] = parent.rad[1] /\ g.rad[g.nr] = parent.rad[parent.nr] /\ g.ang[g.nt + 1] = parent.ang[parent.nt + 1]

\* LevelCache(previous_level, coarse_grid): the coarse cache entry of node (i, j) is copied from the fine cache entry with the
\* index fine.index(2i, 2j) - computed with the FINE grid's numbering (its own circle/radial split), stored under the COARSE
\* grid's numbering.  It is the right entry iff that fine node is the same point, whatever the two splits are.
CacheDerivation == parent # <<>> =>
   \A p \in AllPos(g) :
      LET src == FastIndex(parent, 2 * p[1], 2 * p[2])
          m == MultiIndex(parent, src)
      IN /\ src \in 0..(Nodes(parent) - 1)
         /\ parent.rad[m[1] + 1] = g.rad[p[1] + 1] /\ parent.ang[m[2] + 1] = g.ang[p[2] + 1]

(* ------------------------------ expectation table ------------------------ *)
Table == [nr |-> g.nr, nt |-> g.nt, nc |-> g.nc, auto |-> g.auto, rad |-> g.rad, ang |-> g.ang,
          idx |-> [ir \in 1..g.nr |-> [k \in 1..(6 * g.nt + 1) |-> Index(g, ir - 1, k - 1 - 3 * g.nt)]],
          multi |-> [n \in 1..Nodes(g) |-> MultiIndex(g, n - 1)],
          adj |-> [n \in 1..Nodes(g) |-> LET m == MultiIndex(g, n - 1) IN Adjacent(g, m[1], m[2])],
          diag |-> [n \in 1..Nodes(g) |-> LET m == MultiIndex(g, n - 1) IN Diagonal(g, m[1], m[2])],
          coarsenable |-> CanCoarsen(g),
          coarse |-> IF CanCoarsen(g) /\ SplitAuto(CoarseRad(g), g.nt \div 2) >= 0
                     THEN [nr |-> (g.nr + 1) \div 2, nt |-> g.nt \div 2, nc |-> SplitAuto(CoarseRad(g), g.nt \div 2)] ELSE [nr |-> 0, nt |-> 0, nc |-> 0]]
Emit == IF EmitTables THEN PrintT("@@CASE " \o ToJson(Table)) ELSE TRUE
=============================================================================
