---- MODULE GridValidMC ----
EXTENDS GridValid
RadValsMC == {-1, 0, 1, 2, 3}
====
