SPECIFICATION Spec
CONSTANTS
  Obj = {1,2}
  Class = "Diag"
  Shapes = {1,3}
  Variants = {1,2}
  FIXED = {}
  GenCases = FALSE
  MaxHist = 7
VIEW PlainView
CONSTRAINT Bound
INVARIANTS
  NoThrow
  InBounds
  Refines
