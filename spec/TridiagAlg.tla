----------------------------- MODULE TridiagAlg -----------------------------
(***************************************************************************)
(* Statement-by-statement transcription of                                 *)
(* SymmetricTridiagonalSolver<T>::solveInPlace (in-place LDL^T, and the    *)
(* Sherman-Morrison treatment of the cyclic corner) over exact fractions,  *)
(* as a state machine over successive solves on ONE object:                *)
(* the arrays are overwritten by the first solve, later solves reuse them. *)
(* Property C14: whenever no pivot vanishes, every solve returns x with    *)
(* A x = b exactly (A = the matrix the entries described before the first  *)
(* solve), for every dimension n >= 2, cyclic or not; the same rhs gives   *)
(* the same result on every later solve.                                   *)
(***************************************************************************)
EXTENDS Integers, Sequences, TLC, Json, Frac

CONSTANTS Dims,        \* set of dimensions, e.g. 2..4
          DiagVals, SubVals, CornerVals,   \* integer entry domains
          MaxSolves,
          EmitTables   \* TRUE: print one expectation table per terminal state

VARIABLES n, cyc, A0d, A0s, A0c,   \* the instance (original entries, integers)
          d, s,                    \* main_diagonal_values_, sub_diagonal_values_ (fractions; overwritten)
          gamma, factorized,       \* hidden state
          x, rhs, nsolves, bad,    \* last result / last rhs / count / a pivot vanished
          first,                   \* result of the first solve with each rhs (for SecondSolveSame)
          seq                      \* the right-hand sides used so far

vars == <<n, cyc, A0d, A0s, A0c, d, s, gamma, factorized, x, rhs, nsolves, bad, first, seq>>

\* two right-hand sides per dimension: a ramp and an alternating one
Rhs(k, m) == [i \in 1..m |-> IF k = 1 THEN FInt(i) ELSE FInt(IF i % 2 = 0 THEN -2 ELSE 3)]

Init ==
  /\ n \in Dims
  /\ cyc \in BOOLEAN
  /\ A0d \in [1..n -> DiagVals]
  /\ A0s \in [1..(n - 1) -> SubVals]
  /\ A0c \in (IF cyc THEN CornerVals ELSE {0})
  /\ d = [i \in 1..n |-> FInt(A0d[i])]
  /\ s = [i \in 1..(n - 1) |-> FInt(A0s[i])]
  /\ gamma = FZero /\ factorized = FALSE
  /\ x = <<>> /\ rhs = 0 /\ nsolves = 0 /\ bad = FALSE
  /\ first = [k \in 1..2 |-> <<>>]
  /\ seq = <<>>

(* ---- the factorisation loop shared by both variants:
   for i = 1..n-1 (C++ indices): sub(i-1) /= main(i-1); main(i) -= sub(i-1)^2 * main(i-1)            ---- *)
RECURSIVE Factor(_, _, _)
Factor(dd, ss, i) ==   \* i = TLA index of the row being eliminated into (2..n)
  IF i > n THEN [d |-> dd, s |-> ss, bad |-> FALSE]
  ELSE IF FIsZero(dd[i - 1]) THEN [d |-> dd, s |-> ss, bad |-> TRUE]
  ELSE LET l  == FDiv(ss[i - 1], dd[i - 1])
           di == FSub(dd[i], FMul(FMul(l, l), dd[i - 1]))
       IN Factor([dd EXCEPT ![i] = di], [ss EXCEPT ![i - 1] = l], i + 1)

RECURSIVE Fwd(_, _, _)
Fwd(v, ss, i) == IF i > n THEN v ELSE Fwd([v EXCEPT ![i] = FSub(v[i], FMul(ss[i - 1], v[i - 1]))], ss, i + 1)
RECURSIVE Bwd(_, _, _)
Bwd(v, ss, i) == IF i < 1 THEN v ELSE Bwd([v EXCEPT ![i] = FSub(v[i], FMul(ss[i], v[i + 1]))], ss, i - 1)
Scale(v, dd) == [i \in 1..n |-> FDiv(v[i], dd[i])]
AnyZero(dd) == \E i \in 1..n : FIsZero(dd[i])

\* ---- solveSymmetricTridiagonal
SolvePlain(k) ==
  LET f  == IF factorized THEN [d |-> d, s |-> s, bad |-> FALSE] ELSE Factor(d, s, 2)
      b  == Rhs(k, n)
  IN IF f.bad \/ AnyZero(f.d)
     THEN /\ bad' = TRUE /\ UNCHANGED <<d, s, gamma, factorized, x, first>>
     ELSE LET y == Bwd(Scale(Fwd(b, f.s, 2), f.d), f.s, n - 1)
          IN /\ d' = f.d /\ s' = f.s /\ factorized' = TRUE /\ gamma' = gamma
             /\ x' = y /\ bad' = FALSE
             /\ first' = IF first[k] = <<>> THEN [first EXCEPT ![k] = y] ELSE first

\* ---- solveSymmetricCyclicTridiagonal
\* forward substitution of u: u[0] = gamma; u[i] = (i < n-1 ? 0 : corner) - sub(i-1) * u[i-1]
RECURSIVE FwdU(_, _, _, _)
FwdU(u, ss, c, i) ==
  IF i > n THEN u
  ELSE FwdU([u EXCEPT ![i] = FSub(IF i < n THEN FZero ELSE c, FMul(ss[i - 1], u[i - 1]))], ss, c, i + 1)

SolveCyclic(k) ==
  LET c  == FInt(A0c)     \* cyclic_corner_element_ is never overwritten
      g  == IF factorized THEN gamma ELSE FNeg(d[1])
      \* Sherman-Morrison adjustment: main(0) -= gamma; main(n-1) -= corner^2 / gamma
      pre == IF factorized THEN [d |-> d, s |-> s, bad |-> FALSE]
             ELSE IF FIsZero(g) THEN [d |-> d, s |-> s, bad |-> TRUE]
             ELSE LET d1 == [d EXCEPT ![1] = FSub(d[1], g)]
                      d2 == [d1 EXCEPT ![n] = FSub(d1[n], FDiv(FMul(c, c), g))]
                  IN Factor(d2, s, 2)
      b  == Rhs(k, n)
  IN IF pre.bad \/ AnyZero(pre.d)
     THEN /\ bad' = TRUE /\ UNCHANGED <<d, s, gamma, factorized, x, first>>
     ELSE LET xs == Bwd(Scale(Fwd(b, pre.s, 2), pre.d), pre.s, n - 1)
              u0 == [i \in 1..n |-> IF i = 1 THEN g ELSE FZero]
              us == Bwd(Scale(FwdU(u0, pre.s, c, 2), pre.d), pre.s, n - 1)
              cg == FDiv(c, g)
              dxv == FAdd(xs[1], FMul(cg, xs[n]))
              duv == FAdd(us[1], FMul(cg, us[n]))
              den == FAdd(FOne, duv)
          IN IF FIsZero(den)
             THEN /\ bad' = TRUE /\ UNCHANGED <<d, s, gamma, factorized, x, first>>
             ELSE LET fac == FDiv(dxv, den)
                      y == [i \in 1..n |-> FSub(xs[i], FMul(fac, us[i]))]
                  IN /\ d' = pre.d /\ s' = pre.s /\ factorized' = TRUE /\ gamma' = g
                     /\ x' = y /\ bad' = FALSE
                     /\ first' = IF first[k] = <<>> THEN [first EXCEPT ![k] = y] ELSE first

Solve(k) ==
  /\ nsolves < MaxSolves /\ ~bad
  /\ IF cyc THEN SolveCyclic(k) ELSE SolvePlain(k)
  /\ rhs' = k /\ nsolves' = nsolves + 1 /\ seq' = Append(seq, k)
  /\ UNCHANGED <<n, cyc, A0d, A0s, A0c>>

Next == \E k \in 1..2 : Solve(k)
Spec == Init /\ [][Next]_vars

(* ------------------------------ the ideal -------------------------------- *)
\* entry (i,j) of the matrix the object was given (for n = 2 the corner adds to the off-diagonal)
Entry(i, j) ==
  LET base == IF i = j THEN A0d[i]
              ELSE IF j = i + 1 THEN A0s[i] ELSE IF i = j + 1 THEN A0s[j] ELSE 0
      corner == IF cyc /\ ((i = 1 /\ j = n) \/ (i = n /\ j = 1)) THEN A0c ELSE 0
  IN base + corner

RECURSIVE RowDot(_, _, _)
RowDot(i, v, j) == IF j > n THEN FZero ELSE FAdd(FMul(FInt(Entry(i, j)), v[j]), RowDot(i, v, j + 1))

AlgSolves ==
  (nsolves > 0 /\ ~bad) => \A i \in 1..n : RowDot(i, x, 1) = Rhs(rhs, n)[i]

SecondSolveSame ==
  (nsolves > 0 /\ ~bad) => x = first[rhs]

(* ----------------------------- expectation tables ------------------------ *)
Terminal == nsolves = MaxSolves \/ bad
Table == [n |-> n, cyc |-> cyc, diag |-> A0d, sub |-> A0s, corner |-> A0c, bad |-> bad,
          seq |-> seq,
          fd |-> d, fs |-> s, gamma |-> gamma, x |-> x]
Emit == IF EmitTables /\ Terminal /\ nsolves > 0 THEN PrintT("@@CASE " \o ToJson(Table)) ELSE TRUE
=============================================================================
