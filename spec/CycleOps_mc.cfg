SPECIFICATION Spec
CONSTANTS
  LSet = {2,3,4}
  NuSet = {0,1,2}
  ItsSet = {0,1,2}
  Defects = {}
  EmitTerms = FALSE
INVARIANTS CycleRefinesMG NoStale RhsPreserved StartRefinesFMG ProgramAgrees ProgramClean SetupRhs
