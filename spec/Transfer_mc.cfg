SPECIFICATION Spec
CONSTANTS
  NrC = {3,4}
  NtC = {2,4}
  Sp = {1,2}
  Midpoint = FALSE
  HPer = 0
  EmitTables = FALSE
INVARIANTS P_Copies P_Const P_Convex P_LinearMid PX_Copies PX_Const PX_Convex PX_LinearMid FI_Copies FI_Const FI_CubicR FI_CubicT FI_RowKinds FI_LinearFallbackMid
