SPECIFICATION Spec
CONSTANTS
  Dims = {2,3,4}
  DiagVals <- SDiag
  SubVals <- SSub
  CornerVals <- SCorner
  MaxSolves = 2
  EmitTables = TRUE
INVARIANTS AlgSolves SecondSolveSame Emit
