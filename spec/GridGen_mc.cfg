SPECIFICATION Spec
CONSTANTS
  NrExp = {2,3,4,5}
  Aniso = {0,1,2,3,4}
  DivBy2 = {0,1}
  NtExp = {3}
  MaxLev = {0}
  FIXED = {"F7"}
  EmitTables = FALSE
INVARIANTS NoUB Valid Nested LevelsAdmitted
