------------------------------- MODULE Frac -------------------------------
(* Exact rational arithmetic for TLC: a fraction is <<num, den>> with den > 0 and gcd(|num|, den) = 1. *)
(* TLC integers are 32 bit and TLC aborts on overflow, so an overflow is a harness error, never a verdict. *)
EXTENDS Integers

RECURSIVE GCD(_, _)
GCD(a, b) == IF b = 0 THEN a ELSE GCD(b, a % b)
AbsI(a) == IF a < 0 THEN -a ELSE a

FNorm(n, d) ==
  LET s == IF d < 0 THEN -1 ELSE 1
      g == GCD(AbsI(n), AbsI(d))
  IN IF n = 0 THEN <<0, 1>> ELSE <<(s * n) \div g, (s * d) \div g>>

FInt(i) == <<i, 1>>
FZero == <<0, 1>>
FOne == <<1, 1>>
FIsZero(a) == a[1] = 0
FNeg(a) == <<-a[1], a[2]>>
\* cross-cancel before multiplying to keep intermediates small
FMul(a, b) ==
  IF a[1] = 0 \/ b[1] = 0 THEN FZero
  ELSE LET g1 == GCD(AbsI(a[1]), b[2])
           g2 == GCD(AbsI(b[1]), a[2])
       IN <<(a[1] \div g1) * (b[1] \div g2), (a[2] \div g2) * (b[2] \div g1)>>
FInv(a) == IF a[1] < 0 THEN <<-a[2], -a[1]>> ELSE <<a[2], a[1]>>
FDiv(a, b) == FMul(a, FInv(b))
FAdd(a, b) ==
  LET g == GCD(a[2], b[2])
      l == (a[2] \div g)
      r == (b[2] \div g)
  IN FNorm(a[1] * r + b[1] * l, l * b[2])
FSub(a, b) == FAdd(a, FNeg(b))
FEq(a, b) == a = b   \* both normalised
FPos(a) == a[1] > 0
=============================================================================
