SPECIFICATION Spec
CONSTANTS
  NrSet = {5,6,7,8,9,10,12}
  NtSet = {4,6,8,10,12,16,20,24}
  Ops = {"residualGive", "smootherTake", "xsmootherTake", "residualTake", "smootherGive"}
  EmitTables = FALSE
  FIXED = {"F19", "F21"}
INVARIANTS EpochDisjoint AllRadialOnce AllCirclesOnce
