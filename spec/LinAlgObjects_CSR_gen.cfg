SPECIFICATION Spec
CONSTANTS
  Obj = {1,2}
  Class = "CSR"
  Shapes = {1,2,3,4}
  Variants = {1,2}
  FIXED = {}
  GenCases = TRUE
  MaxHist = 7
VIEW EdgeView
CONSTRAINT Bound

