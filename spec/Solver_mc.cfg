SPECIFICATION Spec
CONSTANTS
  FIXED = {"F3","F4","F5","F6","F8","F18"}
  MaxCalls = 5
  MaxIterDom = {0, 2}
  ExtDom = {0, 3}
  LDom = {2, 3}
  MiscDom = {0}
  Settable = {"ext", "fmg", "L", "take", "caches", "maxIter", "absOn", "relOn", "exact"}
  GenHist = FALSE
INVARIANTS ModeAgrees StartIsData StatsFresh StatsDefined HistoriesOwn StopTruth RejectOrRun TimingsOwn
