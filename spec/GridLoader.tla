----------------------------- MODULE GridLoader -----------------------------
(***************************************************************************)
(* The grid-file loader (PolarGrid::loadVectorFromFile + the file          *)
(* constructor + checkParameters) as a token machine.  A file is missing,  *)
(* or a sequence of tokens Num(v) / Junk.  The loader consumes tokens one  *)
(* by one (one action per extraction).  Property C18 (fault sequences):    *)
(* a file is accepted only if every token is a number and the numbers form *)
(* a valid coordinate array; the accepted array is the whole file.         *)
(***************************************************************************)
EXTENDS Integers, Sequences, TLC, Json

CONSTANTS MaxLen, FIXED, EmitTables
VARIABLES file, missing, pos, vec, state,    \* state: "reading" | "accepted" | "rejected"
          sep, half                         \* sep[i]: token i is followed by a blank instead of a newline; half: inside a glued token
vars == <<file, missing, pos, vec, state, sep, half>>

Junk == -1      \* a token that is not a number ("abc")
Inf == -2       \* "inf": not a finite coordinate (formatted extraction of a double rejects it)
\* 1..4: numbers (strictly increasing values make a valid radii file); 11..14: the number v = t - 10 with garbage glued to
\* it ("0.3cm", "0.3;"): the extraction reads v and the NEXT extraction fails on the rest
Tokens == {Junk, Inf, 1, 2, 3, 4, 12, 13}
Glued(t) == t >= 11
Pure(t) == t >= 1 /\ t <= 4

Init == /\ missing \in BOOLEAN
        /\ file \in UNION {[1..n -> Tokens] : n \in 0..MaxLen}
        /\ (missing => file = <<>>)
        /\ pos = 1 /\ vec = <<>> /\ state = "reading" /\ half = FALSE
        /\ sep \in [1..Len(file) -> BOOLEAN]            \* whitespace of either kind separates values

ValidArray(v) == Len(v) >= 2 /\ \A i \in 1..(Len(v) - 1) : v[i] < v[i + 1]     \* checkParameters (radii)

\* while (inputFile >> value) push_back(value);
ReadNumber == /\ state = "reading" /\ ~missing /\ pos <= Len(file) /\ ~half /\ (Pure(file[pos]) \/ Glued(file[pos]))
              /\ vec' = Append(vec, IF Glued(file[pos]) THEN file[pos] - 10 ELSE file[pos])
              /\ (IF Glued(file[pos]) THEN pos' = pos /\ half' = TRUE ELSE pos' = pos + 1 /\ half' = FALSE)
              /\ UNCHANGED <<file, missing, state, sep>>
\* extraction fails: at the end of the file, or at a token that is not a number
Stop == /\ state = "reading"
        /\ (IF missing \/ pos > Len(file) THEN TRUE ELSE (half \/ file[pos] \in {Junk, Inf}))
        /\ LET atEof == missing \/ pos > Len(file)
               malformed == ~atEof
           IN state' = IF "F10" \in FIXED /\ malformed THEN "rejected"          \* throw: malformed value
                       ELSE IF ValidArray(vec) THEN "accepted" ELSE "rejected"   \* checkParameters
        /\ UNCHANGED <<file, missing, pos, vec, sep, half>>
Next == ReadNumber \/ Stop
Spec == Init /\ [][Next]_vars

Clean(f) == \A i \in 1..Len(f) : Pure(f[i])
\* accepted => the file had no fault and the grid is the whole file
AcceptsOnlyWholeFiles == state = "accepted" => (~missing /\ Clean(file) /\ vec = file /\ ValidArray(file))
RejectsFaults == (state \in {"accepted", "rejected"} /\ (missing \/ ~Clean(file) \/ ~ValidArray(file))) => state = "rejected"
Done == state \in {"accepted", "rejected"}
Emit == IF EmitTables /\ Done THEN PrintT("@@CASE " \o ToJson([file |-> file, sep |-> sep, missing |-> missing, outcome |-> state])) ELSE TRUE
=============================================================================
