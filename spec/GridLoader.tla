----------------------------- MODULE GridLoader -----------------------------
(***************************************************************************)
(* The grid-file loader (PolarGrid::loadVectorFromFile + the file          *)
(* constructor + checkParameters) as a token machine.  A file is missing,  *)
(* or a sequence of tokens Num(v) / Junk.  The loader consumes tokens one  *)
(* by one (one action per extraction).  Property C18 (fault sequences):    *)
(* a file is accepted only if every token is a number and the numbers form *)
(* a valid coordinate array; the accepted array is the whole file.         *)
(***************************************************************************)
EXTENDS Integers, Sequences, TLC, Json

CONSTANTS MaxLen, FIXED, EmitTables
VARIABLES file, missing, pos, vec, state     \* state: "reading" | "accepted" | "rejected"
vars == <<file, missing, pos, vec, state>>

Junk == -1
\* token values: strictly increasing small numbers make a valid radii file; 0 stands for a non-increasing value
Tokens == {Junk, 1, 2, 3, 4}

Init == /\ missing \in BOOLEAN
        /\ file \in UNION {[1..n -> Tokens] : n \in 0..MaxLen}
        /\ (missing => file = <<>>)
        /\ pos = 1 /\ vec = <<>> /\ state = "reading"

ValidArray(v) == Len(v) >= 2 /\ \A i \in 1..(Len(v) - 1) : v[i] < v[i + 1]     \* checkParameters (radii)

\* while (inputFile >> value) push_back(value);
ReadNumber == /\ state = "reading" /\ ~missing /\ pos <= Len(file) /\ file[pos] # Junk
              /\ vec' = Append(vec, file[pos]) /\ pos' = pos + 1 /\ UNCHANGED <<file, missing, state>>
\* extraction fails: at the end of the file, or at a token that is not a number
Stop == /\ state = "reading"
        /\ (IF missing \/ pos > Len(file) THEN TRUE ELSE file[pos] = Junk)
        /\ LET atEof == missing \/ pos > Len(file)
               malformed == ~atEof
           IN state' = IF "F10" \in FIXED /\ malformed THEN "rejected"          \* throw: malformed value
                       ELSE IF ValidArray(vec) THEN "accepted" ELSE "rejected"   \* checkParameters
        /\ UNCHANGED <<file, missing, pos, vec>>
Next == ReadNumber \/ Stop
Spec == Init /\ [][Next]_vars

Clean(f) == \A i \in 1..Len(f) : f[i] # Junk
\* accepted => the file had no fault and the grid is the whole file
AcceptsOnlyWholeFiles == state = "accepted" => (~missing /\ Clean(file) /\ vec = file /\ ValidArray(file))
RejectsFaults == (state \in {"accepted", "rejected"} /\ (missing \/ ~Clean(file) \/ ~ValidArray(file))) => state = "rejected"
Done == state \in {"accepted", "rejected"}
Emit == IF EmitTables /\ Done THEN PrintT("@@CASE " \o ToJson([file |-> file, missing |-> missing, outcome |-> state])) ELSE TRUE
=============================================================================
