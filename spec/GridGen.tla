------------------------------- MODULE GridGen -------------------------------
(***************************************************************************)
(* Parametric grid construction (src/PolarGrid/polargrid.cpp,              *)
(* anisotropic_division.cpp, chooseNumberOfLevels in setup.cpp) and the    *)
(* grid-file loader (load_write_grid.cpp).                                 *)
(*                                                                         *)
(* Radii are integers in units of uniform_distance / 2^(a+1) relative to   *)
(* R0 (a = anisotropic factor), so that every halving stays integral.      *)
(* std::vector / std::set become partial functions / sets; an access       *)
(* outside an array's domain, an iterator moved before begin() or past     *)
(* end(), log2 of a non-positive number are recorded as UB.  The real      *)
(* valued floor(nr * percentage) is the model parameter fl, which covers   *)
(* refinement radii inside and outside [R0, Rmax].                         *)
(* Property C18: an accepted parameter set gives, without UB, strictly     *)
(* increasing radii from exactly R0 to exactly Rmax, fine nodes that are   *)
(* midpoints, nested refinements, and admits the reported level count;     *)
(* everything else is rejected with an exception.                          *)
(***************************************************************************)
EXTENDS Integers, Sequences, FiniteSets, TLC, Json

CONSTANTS NrExp, Aniso, DivBy2, NtExp, MaxLev,    \* parameter domains
          FIXED,                                   \* SUBSET {"F7"}: repairs present in the code-shaped transcription
          EmitTables

VARIABLES p, phase
vars == <<p, phase>>

RECURSIVE Pow2(_)
Pow2(e) == IF e <= 0 THEN 1 ELSE 2 * Pow2(e - 1)
RECURSIVE ILog2(_)
ILog2(x) == IF x <= 1 THEN 0 ELSE 1 + ILog2(x \div 2)       \* floor(log2 x) for x >= 1
Min(a, b) == IF a < b THEN a ELSE b
Max(a, b) == IF a > b THEN a ELSE b
CeilDiv(a, b) == (a + b - 1) \div b

\* the k smallest elements removed / sorted sequence of a finite set of integers
RECURSIVE SortSet(_)
SortSet(S) == IF S = {} THEN <<>> ELSE LET m == CHOOSE x \in S : \A y \in S : x <= y IN <<m>> \o SortSet(S \ {m})
DropSmallest(S, k) == LET s == SortSet(S) IN {s[i] : i \in (k + 1)..Len(s)}

(* ---------------- RadialAnisotropicDivision, statement by statement ------ *)
\* result: [status |-> "ok" | "reject" | "ub", why, r |-> Seq of radii (units), unit |-> size of the uniform cell in units]
Anisotropic(nrexp, a, fl) ==
  LET U  == Pow2(a)                    \* uniform_distance in units (before the final midpoint refinement)
      ne0 == Pow2(nrexp) - Pow2(a)
  IN IF a < 0 \/ ne0 <= 0 THEN [status |-> "reject", why |-> "2^fac_ani >= 2^nr_exp", r |-> <<>>, unit |-> U]
  ELSE
  LET ne == IF a % 2 = 1 THEN ne0 + 1 ELSE ne0          \* n_elems_equi
      nr == ne + 1
      r2 == [i \in 0..(nr - 1) |-> i * U]               \* r_temp2 (last entry = R exactly)
      \* the repaired code rejects a refinement radius outside [R0, Rmax] and keeps the refined window inside the array
      flc == IF "F7" \in FIXED THEN Min(fl, nr - 1) ELSE fl
      nref0 == Pow2(a)
      kuhn == flc > nr - (nref0 \div 2)
      logarg == nr - flc
      nref == IF kuhn THEN (IF logarg >= 1 THEN Pow2(ILog2(logarg) + 1) ELSE 0) ELSE nref0
      se0 == flc - (nref \div 2)
      se == IF "F7" \in FIXED THEN Max(0, Min(se0, nr - nref)) ELSE se0
      ee == se + nref
      st == CeilDiv(nref, 4)                            \* ceil(n/4 + 1) - 1
      et == (3 * nref) \div 4
      window == {se + i : i \in 0..(nref - 1)}
  IN IF "F7" \in FIXED /\ (fl < 0 \/ fl > nr) THEN [status |-> "reject", why |-> "refinement radius outside [R0, Rmax]", r |-> <<>>, unit |-> U]
     ELSE IF kuhn /\ logarg < 1 THEN [status |-> "ub", why |-> "log2 of a non-positive number", r |-> <<>>, unit |-> U]
     ELSE IF \E j \in window : j < 0 \/ j > nr - 1 THEN [status |-> "ub", why |-> "r_temp2[se + i] out of bounds", r |-> <<>>, unit |-> U]
  ELSE
  LET P0 == {r2[j] : j \in window}
      \* the a refinement rounds: state [p1 (r_set_p1), cnt (count), rs (r_set), half, ub]
      RECURSIVE Rounds(_, _)
      Rounds(k, s) ==
        IF k = a \/ s.ub THEN s
        ELSE LET sorted == SortSet(s.p1)
                 rsize == s.cnt
                 n == rsize - 1                              \* iterations of the inner loop
             IN IF n > Len(sorted) THEN [s EXCEPT !.ub = TRUE]      \* iterator incremented past end()
                ELSE LET add == {sorted[i + 1] + s.half : i \in 0..(n - 1)}
                         keep == {i \in 0..(n - 1) : k < a - 1 /\ i >= st /\ i < et}
                         tmp == {sorted[i + 1] : i \in keep} \cup {sorted[i + 1] + s.half : i \in keep}
                     IN Rounds(k + 1, [p1 |-> tmp, cnt |-> 2 * Cardinality(keep), rs |-> s.rs \cup add, half |-> s.half \div 2, ub |-> FALSE])
      fin == Rounds(0, [p1 |-> P0, cnt |-> nref, rs |-> {}, half |-> U \div 2, ub |-> FALSE])
  IN IF fin.ub THEN [status |-> "ub", why |-> "set iterator past end()", r |-> <<>>, unit |-> U]
  ELSE
  LET nr1 == nr + Cardinality(fin.rs)
      shift == Min((nr1 % 8) - 1, Cardinality(fin.rs))
  IN IF shift < 0 THEN [status |-> "ub", why |-> "std::advance(begin, -1)", r |-> <<>>, unit |-> U]
  ELSE
  LET rs2 == DropSmallest(fin.rs, shift) \cup P0
      srt == SortSet(rs2)
      nrf == ne - nref + Len(srt) + 1
      tail == ne - ee + 1                                    \* number of copied trailing nodes
      \* r_temp: zero-initialised, then three copy loops; an index outside 0..nrf-1 is UB
      idxs == {i : i \in 0..(se - 1)} \cup {se + i : i \in 0..(Len(srt) - 1)} \cup {se + Len(srt) + i : i \in 0..(tail - 1)}
      srcs == {ee + i : i \in 0..(tail - 1)}
  IN IF \E j \in idxs : j < 0 \/ j > nrf - 1 THEN [status |-> "ub", why |-> "r_temp index out of bounds", r |-> <<>>, unit |-> U]
     ELSE IF \E j \in srcs : j < 0 \/ j > nr - 1 THEN [status |-> "ub", why |-> "r_temp2[ee + i] out of bounds", r |-> <<>>, unit |-> U]
     ELSE [status |-> "ok", why |-> "",
           r |-> [i \in 1..nrf |-> LET j == i - 1 IN
                    IF j < se THEN r2[j]
                    ELSE IF j < se + Len(srt) THEN srt[j - se + 1]
                    ELSE IF j < se + Len(srt) + tail THEN r2[ee + (j - se - Len(srt))]
                    ELSE 0],                                   \* never written: keeps the zero of resize()
           unit |-> U]

\* uniform division: 2^(nr_exp-1) + 1 nodes
Uniform(nrexp) == [status |-> "ok", why |-> "", r |-> [i \in 1..(Pow2(nrexp - 1) + 1) |-> (i - 1) * 2], unit |-> 2]

\* constructRadialDivisions: r_temp, then one midpoint refinement (all values doubled so that midpoints are integers)
Midpoints(r) == [i \in 1..(2 * Len(r) - 1) |-> IF i % 2 = 1 THEN 2 * r[(i + 1) \div 2] ELSE r[i \div 2] + r[i \div 2 + 1]]
\* divideVector (refineGrid): each interval split into 2^d equal parts (values scaled by 2^d)
Divide(r, d) == LET q == Pow2(d) IN
  [i \in 1..((Len(r) - 1) * q + 1) |-> LET b == (i - 1) \div q
                                          j == (i - 1) % q
                                      IN IF b + 1 = Len(r) THEN q * r[Len(r)] ELSE q * r[b + 1] + j * (r[b + 2] - r[b + 1])]

Radii(c) ==
  LET base == IF c.a = 0 THEN Uniform(c.nrexp) ELSE Anisotropic(c.nrexp, c.a, c.fl)
  IN IF base.status # "ok" THEN base
     ELSE [base EXCEPT !.r = Divide(Midpoints(base.r), c.d)]
\* Rmax in the final units
RmaxUnits(c, base) == LET ne0 == Pow2(c.nrexp) - Pow2(c.a)
                          ne == IF c.a = 0 THEN Pow2(c.nrexp - 1) ELSE IF c.a % 2 = 1 THEN ne0 + 1 ELSE ne0
                      IN ne * base.unit * 2 * Pow2(c.d)

\* constructAngularDivisions + refineGrid
CeilLog2(n) == IF n <= 1 THEN 0 ELSE ILog2(n - 1) + 1
\* ntexp = 0 encodes the automatic choice (-1 on the command line)
Ntheta(c, nrBeforeRefine) == (IF c.ntexp <= 0 THEN Pow2(CeilLog2(nrBeforeRefine)) ELSE Pow2(c.ntexp)) * Pow2(c.d)

\* chooseNumberOfLevels
RECURSIVE RadialLevels(_)
RadialLevels(n) == IF (n + 1) \div 2 >= 5 /\ (n + 1) % 2 = 0 THEN 1 + RadialLevels((n + 1) \div 2) ELSE 1
RECURSIVE AngularLevels(_)
AngularLevels(n) == IF n \div 2 >= 4 /\ n % 2 = 0 /\ (n \div 2) % 2 = 0 THEN 1 + AngularLevels(n \div 2) ELSE 1
Levels(nr, nt, cap) == LET g == Min(RadialLevels(nr), AngularLevels(nt)) IN IF cap > 0 THEN Min(cap, g) ELSE g

(* ------------------------------- properties ------------------------------ *)
StrictlyIncreasing(r) == \A i \in 1..(Len(r) - 1) : r[i] < r[i + 1]
\* after the final refinement every odd node is the midpoint of its even neighbours
MidpointsHold(r) == \A i \in 1..Len(r) : (i % 2 = 0) => 2 * r[i] = r[i - 1] + r[i + 1]
\* can be coarsened `lev - 1` times by taking every second node
RECURSIVE Coarsenable(_, _, _)
Coarsenable(nr, nt, k) == k = 0 \/ ((nr - 1) % 2 = 0 /\ nt % 2 = 0 /\ (nt \div 2) % 2 = 0 /\ (nr + 1) \div 2 >= 2 /\ Coarsenable((nr + 1) \div 2, nt \div 2, k - 1))

Res == Radii(p)
Valid == Res.status = "ok" =>
           /\ StrictlyIncreasing(Res.r)
           /\ Res.r[1] = 0 /\ Res.r[Len(Res.r)] = RmaxUnits(p, Res)     \* exactly R0, exactly Rmax
           /\ MidpointsHold(Res.r)
NoUB == Res.status # "ub"
Nested == (Res.status = "ok" /\ p.d > 0) =>
            LET coarser == Radii([p EXCEPT !.d = p.d - 1]).r
            IN \A i \in 1..Len(coarser) : Res.r[2 * i - 1] = 2 * coarser[i]
LevelsAdmitted == Res.status = "ok" =>
            LET nr == Len(Res.r)
                nt == Ntheta(p, (Len(Res.r) - 1) \div Pow2(p.d) + 1)
                lev == Levels(nr, nt, p.maxlev)
            IN lev >= 2 => Coarsenable(nr, nt, lev - 1)

Init == /\ p \in [nrexp : NrExp, a : Aniso, fl : (-3)..70, d : DivBy2, ntexp : NtExp, maxlev : MaxLev]
        \* fl only matters for anisotropic grids and ranges a little beyond 0..nr
        /\ (p.a = 0 => p.fl = 0) /\ (p.a # 0 => p.fl <= Pow2(p.nrexp) + 4)
        /\ phase = "init"
Next == phase = "init" /\ phase' = "done" /\ UNCHANGED p
Spec == Init /\ [][Next]_vars

Table == LET nr == IF Res.status = "ok" THEN Len(Res.r) ELSE 0
             nt == IF Res.status = "ok" THEN Ntheta(p, (Len(Res.r) - 1) \div Pow2(p.d) + 1) ELSE 0
         IN [p |-> p, status |-> Res.status, why |-> Res.why, r |-> Res.r, rmax |-> IF Res.status = "ok" THEN RmaxUnits(p, Res) ELSE 0,
             nt |-> nt, levels |-> IF Res.status = "ok" THEN Levels(nr, nt, p.maxlev) ELSE 0,
             nrAniso |-> (IF p.a % 2 = 1 THEN Pow2(p.nrexp) - Pow2(p.a) + 1 ELSE Pow2(p.nrexp) - Pow2(p.a)) + 1]
Emit == IF EmitTables /\ phase = "done" THEN PrintT("@@CASE " \o ToJson(Table)) ELSE TRUE
=============================================================================
