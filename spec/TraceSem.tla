------------------------------ MODULE TraceSem -------------------------------
(***************************************************************************)
(* SEMANTIC validation of the operator level of a recorded execution.      *)
(* TraceOps.tla demands that the instructions between two markers ARE the  *)
(* program of CycleOps.tla; a property-preserving restructuring of the     *)
(* code fails that test although C09/C10 still hold.  This module decides  *)
(* such a rejection: it INTERPRETS the recorded instructions, whatever     *)
(* their order, on the data-flow machine (content of every work vector as  *)
(* a symbolic term) and evaluates the properties themselves where the      *)
(* markers say a unit of work is complete:                                 *)
(*   SetupBuilt   every level that gets a right-hand side holds            *)
(*                Disc(l, Inj^l(Raw)), the others are untouched            *)
(*   InitZero     the iterate is Zero                                      *)
(*   SolveBegin   with FMG the iterate is FMGStart (nested iteration from  *)
(*                the coarsest direct solve), right-hand sides preserved   *)
(*   ResNorm      the residual vector holds f - A u, or the implicitly     *)
(*                extrapolated residual, of the current iterate            *)
(*   CycleDone    the iterate is MG / MGX of the iterate and right-hand    *)
(*                side the cycle started from - hence independent of any   *)
(*                stale scratch content - and right-hand sides preserved   *)
(* Terms are hash-consed into a table (a DAG): every instruction adds at   *)
(* most one node, equal terms have equal ids, so the comparison with the   *)
(* mathematical definition is an integer comparison and nothing grows      *)
(* exponentially.  Scratch vectors are relabelled Stale at the start of    *)
(* every unit, exactly as Cycle.tla's InitBuf does.                        *)
(***************************************************************************)
EXTENDS Integers, Sequences, TLC, Json, IOUtils

VARIABLES l, tab, v, st, fm, start
tvars == <<l, tab, v, st, fm, start>>

Tr == ndJsonDeserialize(IOEnv.TRACE)
N == Len(Tr)
IsEvent(name) == l <= N /\ Tr[l].e = name
KindName(k) == CASE k = 0 -> "V" [] k = 1 -> "W" [] k = 2 -> "F"
MaxId == 63
Ids == 0..MaxId
Lev(id) == id \div 4
Role(id) == id % 4          \* 0 solution, 1 rhs, 2 residual, 3 error_correction
Vid(lev, role) == 4 * lev + role
LinCode == 71

(* ------------------------------ the term table --------------------------- *)
\* a node is a tuple <<tag, ...>> whose later components are levels or ids of earlier nodes
Find(t, node) == IF \E i \in 1..Len(t) : t[i] = node THEN CHOOSE i \in 1..Len(t) : t[i] = node ELSE 0
Mk(t, node) == LET i == Find(t, node) IN IF i # 0 THEN [t |-> t, id |-> i] ELSE [t |-> Append(t, node), id |-> Len(t) + 1]
\* relabel: every vector becomes a fresh leaf; keep(id) gives the leaf of the vectors that carry data
RECURSIVE Relabel(_, _, _)
Relabel(i, keep, acc) ==      \* acc = [t, v]
  IF i > MaxId THEN acc
  ELSE LET m == Mk(acc.t, keep[i]) IN Relabel(i + 1, keep, [t |-> m.t, v |-> [acc.v EXCEPT ![i] = m.id]])
Fresh(keep) == Relabel(0, keep, [t |-> <<>>, v |-> [i \in Ids |-> 0]])
StaleLeaf(i) == <<"Stale", Lev(i), Role(i)>>
RhsLevels(L, ext, fmg) == IF fmg THEN L ELSE IF ext THEN 2 ELSE 1
HasRhs(i) == Role(i) = 1 /\ Lev(i) < RhsLevels(st.L, st.sext, st.sfmg)

(* --------------------------- one recorded instruction -------------------- *)
Val(i) == IF i \in Ids THEN v[i] ELSE 0              \* 0 = not a registered (allocated) work vector
Operand(t, i) == IF i \in Ids THEN [t |-> t, id |-> v[i]] ELSE Mk(t, <<"Unalloc">>)
ApplyOp(o) ==     \* o = the event; result [t, v]
  LET a == o.a
      b == o.b
      c == o.c
      A1 == Operand(tab, a)
      B1 == Operand(A1.t, b)
      C1 == Operand(B1.t, c)
      Put(t, dest, node) == IF dest \in Ids THEN (LET m == Mk(t, node) IN [t |-> m.t, v |-> [v EXCEPT ![dest] = m.id]]) ELSE [t |-> t, v |-> v]
      Put2(r, dest, node) == IF dest \in Ids THEN (LET m == Mk(r.t, node) IN [t |-> m.t, v |-> [r.v EXCEPT ![dest] = m.id]]) ELSE r
  IN CASE o.op \in {"S", "SX"} ->      \* x = sweep(x, rhs); the scratch operand is clobbered; aliasing makes the result undefined
            IF a = b \/ a = c \/ b = c THEN Put(tab, a, <<"Unknown", "aliasing">>)
            ELSE Put2(Put(B1.t, a, <<o.op, o.l, A1.id, B1.id>>), c, <<"Clob">>)
       [] o.op = "Res" -> IF a = b \/ a = c THEN Put(tab, a, <<"Unknown", "aliasing">>) ELSE Put(C1.t, a, <<"Res", o.l, B1.id, C1.id>>)
       [] o.op \in {"R", "RX", "Inj", "P", "PX", "FI"} -> IF a = b THEN Put(tab, a, <<"Unknown", "aliasing">>) ELSE Put(B1.t, a, <<o.op, o.l, B1.id>>)
       [] o.op = "D" -> Put(A1.t, a, <<"D", o.l, A1.id>>)
       [] o.op = "Zero" -> Put(tab, a, <<"Zero">>)
       [] o.op = "Add" -> Put(B1.t, a, <<"Add", A1.id, B1.id>>)
       [] o.op = "Lin" -> IF c = LinCode THEN Put(B1.t, a, <<"Lin", A1.id, B1.id>>) ELSE Put(tab, a, <<"Unknown", "coefficients">>)
       [] o.op = "XR" -> Put(B1.t, a, <<"XR", A1.id, B1.id>>)
       [] o.op = "Copy" -> IF a \in Ids THEN [t |-> B1.t, v |-> [v EXCEPT ![a] = B1.id]] ELSE [t |-> tab, v |-> v]
       [] o.op = "Build" -> Put(tab, a, <<"Raw">>)
       [] o.op = "Disc" -> Put(A1.t, a, <<"Disc", o.l, A1.id>>)
       [] OTHER -> Put(tab, a, <<"Unknown", o.op>>)

(* ------------------------- the mathematical definitions ------------------ *)
\* all take and return [t, id]: the table threaded through, the id of the result
RECURSIVE SmD(_, _, _, _, _, _)
SmD(t, n, x, lev, u, f) == IF n = 0 THEN [t |-> t, id |-> u]
                           ELSE LET m == Mk(t, <<IF x THEN "SX" ELSE "S", lev, u, f>>) IN SmD(m.t, n - 1, x, lev, m.id, f)
RECURSIVE MGd(_, _, _, _, _)
Coarse(t, kind, d, rc) ==      \* solve A e = rc on level d+1 .. starting from zero
  IF d + 1 = st.L - 1 THEN Mk(t, <<"D", d + 1, rc>>)
  ELSE LET z == Mk(t, <<"Zero">>)
       IN CASE kind = "V" -> MGd(z.t, "V", d + 1, z.id, rc)
            [] kind = "W" -> LET r1 == MGd(z.t, "W", d + 1, z.id, rc) IN MGd(r1.t, "W", d + 1, r1.id, rc)
            [] kind = "F" -> LET r1 == MGd(z.t, "F", d + 1, z.id, rc) IN MGd(r1.t, "V", d + 1, r1.id, rc)
MGd(t, kind, d, u, f) ==
  LET s1 == SmD(t, st.nu1, FALSE, d, u, f)
      r1 == Mk(s1.t, <<"Res", d, f, s1.id>>)
      r2 == Mk(r1.t, <<"R", d, r1.id>>)
      e == Coarse(r2.t, kind, d, r2.id)
      p == Mk(e.t, <<"P", d + 1, e.id>>)
      ad == Mk(p.t, <<"Add", s1.id, p.id>>)
  IN SmD(ad.t, st.nu2, FALSE, d, ad.id, f)
\* implicitly extrapolated cycle on level 0; f1 = right-hand side of level 1; xs = extrapolated smoother in use
MGXd(t, kind, u, f, f1, xs) ==
  LET s1 == SmD(t, st.nu1, xs, 0, u, f)
      r1 == Mk(s1.t, <<"Res", 0, f, s1.id>>)
      r2 == Mk(r1.t, <<"RX", 0, r1.id>>)
      j == Mk(r2.t, <<"Inj", 0, s1.id>>)
      rc == Mk(j.t, <<"Res", 1, f1, j.id>>)
      ln == Mk(rc.t, <<"Lin", r2.id, rc.id>>)
      e == Coarse(ln.t, kind, 0, ln.id)
      p == Mk(e.t, <<"PX", 1, e.id>>)
      ad == Mk(p.t, <<"Add", s1.id, p.id>>)
  IN SmD(ad.t, st.nu2, xs, 0, ad.id, f)
Top(t, kind, d, u, ext, xs) ==       \* one cycle started on level d with that level's right-hand side
  IF d = 0 /\ ext THEN MGXd(t, kind, u, v[Vid(0, 1)], v[Vid(1, 1)], xs) ELSE MGd(t, kind, d, u, v[Vid(d, 1)])
RECURSIVE Its(_, _, _, _, _, _, _)
Its(n, t, kind, d, u, ext, xs) == IF n = 0 THEN [t |-> t, id |-> u]
                                  ELSE LET r == Top(t, kind, d, u, ext, xs) IN Its(n - 1, r.t, kind, d, r.id, ext, xs)
RECURSIVE FMGUp(_, _, _)
FMGUp(t, lev, u) ==      \* u = approximation on level lev; returns the one on level 0
  IF lev = 0 THEN [t |-> t, id |-> u]
  ELSE LET fi == Mk(t, <<"FI", lev, u>>)
           r == Its(st.its, fi.t, st.fkind, lev - 1, fi.id, st.ext, st.xsFmg)
       IN FMGUp(r.t, lev - 1, r.id)
FMGStart(t) == LET d0 == Mk(t, <<"D", st.L - 1, v[Vid(st.L - 1, 1)]>>) IN FMGUp(d0.t, st.L - 1, d0.id)
RECURSIVE InjRaw(_, _)
InjRaw(t, lev) == IF lev = 0 THEN Mk(t, <<"Raw">>) ELSE LET r == InjRaw(t, lev - 1) IN Mk(r.t, <<"Inj", lev - 1, r.id>>)

(* --------------------------------- the trace ----------------------------- *)
NoSt == [L |-> 0, ext |-> FALSE, fmg |-> FALSE, nu1 |-> 0, nu2 |-> 0, its |-> 0, fkind |-> "V", kind |-> "V", xsFmg |-> FALSE,
         sext |-> FALSE, sfmg |-> FALSE]
NoStart == [u |-> 0, kind |-> "V", d |-> 0, ext |-> FALSE, xs |-> FALSE, rhs |-> <<>>]
Blank == Fresh([i \in Ids |-> StaleLeaf(i)])
TraceInit == l = 1 /\ tab = Blank.t /\ v = Blank.v /\ st = NoSt /\ fm = 0 /\ start = NoStart
Step == l' = l + 1
\* the leaves a unit of work starts from: iterate of level d = U0, right-hand sides = F(l), everything else stale
UnitLeaves(d) == [i \in Ids |-> IF i = Vid(d, 0) THEN <<"U0">> ELSE IF HasRhs(i) THEN <<"F", Lev(i)>> ELSE StaleLeaf(i)]
RhsIds == {i \in Ids : HasRhs(i)}
RhsNow == [i \in RhsIds |-> tab[v[i]]]
RhsIntact == \A i \in RhsIds : tab[v[i]] = <<"F", Lev(i)>>

TCtor == IsEvent("Ctor") /\ Step /\ tab' = Blank.t /\ v' = Blank.v /\ st' = NoSt /\ fm' = 0 /\ start' = NoStart
TSetupBegin == /\ IsEvent("SetupBegin") /\ Step /\ tab' = Blank.t /\ v' = Blank.v
               /\ st' = [st EXCEPT !.sext = Tr[l].ext # 0, !.sfmg = Tr[l].fmg # 0] /\ UNCHANGED <<fm, start>>
\* rhs set-up: Disc(l, Inj^l(Raw)) on the levels that get a right-hand side, nothing else touched
SetupRhsOK(L) == \A i \in Ids : Role(i) = 1 /\ Lev(i) < L =>
                   IF Lev(i) < RhsLevels(L, st.sext, st.sfmg)
                   THEN LET r == InjRaw(tab, Lev(i)) IN tab[v[i]] = <<"Disc", Lev(i), r.id>> /\ r.t = tab
                   ELSE tab[v[i]] = StaleLeaf(i)
TSetupBuilt == /\ IsEvent("SetupBuilt") /\ Step /\ SetupRhsOK(Tr[l].L)
               /\ st' = [st EXCEPT !.L = Tr[l].L] /\ UNCHANGED <<tab, v, fm, start>>
TSetupThrew == IsEvent("SetupThrew") /\ Step /\ UNCHANGED <<tab, v, st, fm, start>>
TSolveThrew == IsEvent("SolveThrew") /\ Step /\ UNCHANGED <<tab, v, st, fm, start>>
TSolveEnter == /\ IsEvent("SolveEnter") /\ Step /\ fm' = 0 /\ start' = NoStart
               /\ st' = [st EXCEPT !.nu1 = Tr[l].nu1, !.nu2 = Tr[l].nu2, !.its = Tr[l].fmgIts, !.fkind = KindName(Tr[l].fmgKind),
                                    !.kind = KindName(Tr[l].kind), !.ext = Tr[l].extMode # 0, !.fmg = Tr[l].fmg # 0, !.xsFmg = (Tr[l].fgs = 0 /\ Tr[l].extMode # 3)]
               \* the start-up begins from right-hand sides only: every other vector is stale (also the finest iterate)
               /\ LET f == Fresh([i \in Ids |-> IF HasRhs(i) THEN <<"F", Lev(i)>> ELSE StaleLeaf(i)]) IN tab' = f.t /\ v' = f.v
TInitZero == IsEvent("InitZero") /\ Step /\ ~st.fmg /\ tab[v[Vid(0, 0)]] = <<"Zero">> /\ UNCHANGED <<tab, v, st, fm, start>>
\* FMG markers carry no obligation of their own (the result is judged at SolveBegin); they are counted
TFMGMark == (IsEvent("FMGDirect") \/ IsEvent("FMGInterp") \/ IsEvent("FMGCycle")) /\ Step /\ st.fmg /\ fm' = fm + 1 /\ UNCHANGED <<tab, v, st, start>>
TSolveBegin == /\ IsEvent("SolveBegin") /\ Step /\ Tr[l].L = st.L
               /\ (st.fmg => LET r == FMGStart(tab) IN v[Vid(0, 0)] = r.id /\ r.t = tab)
               /\ RhsIntact
               /\ UNCHANGED <<tab, v, st, fm, start>>
TResNorm == /\ IsEvent("ResNorm") /\ Step
            /\ LET u == v[Vid(0, 0)]
                   r0 == Mk(tab, <<"Res", 0, v[Vid(0, 1)], u>>)
               IN IF ~st.ext THEN v[Vid(0, 2)] = r0.id /\ r0.t = tab
                  ELSE LET j == Mk(r0.t, <<"Inj", 0, u>>)
                           r1 == Mk(j.t, <<"Res", 1, v[Vid(1, 1)], j.id>>)
                           x == Mk(r1.t, <<"XR", r0.id, r1.id>>)
                       IN v[Vid(0, 2)] = x.id /\ x.t = tab
            /\ RhsIntact
            /\ UNCHANGED <<tab, v, st, fm, start>>
\* a cycle starts: relabel (scratch = stale), remember what it started from
TCycleRun == /\ IsEvent("CycleRun") /\ Step /\ KindName(Tr[l].kind) = st.kind /\ (Tr[l].ext # 0) = st.ext
             /\ LET f == Fresh(UnitLeaves(0)) IN tab' = f.t /\ v' = f.v
             /\ start' = [u |-> 0, kind |-> st.kind, d |-> 0, ext |-> st.ext, xs |-> (Tr[l].fgs = 0), rhs |-> <<>>]
             /\ UNCHANGED <<st, fm>>
TCycleDone == /\ IsEvent("CycleDone") /\ Step
              /\ LET r == Top(tab, start.kind, 0, Find(tab, <<"U0">>), start.ext, start.xs)
                 IN v[Vid(0, 0)] = r.id /\ r.t = tab        \* the iterate IS the mathematical cycle; no node had to be invented
              /\ RhsIntact
              /\ UNCHANGED <<tab, v, st, fm, start>>
TSolveEnd == IsEvent("SolveEnd") /\ Step /\ UNCHANGED <<tab, v, st, fm, start>>
TOp == /\ IsEvent("Op") /\ Step
       /\ LET r == ApplyOp(Tr[l]) IN tab' = r.t /\ v' = r.v
       /\ UNCHANGED <<st, fm, start>>

TraceNext == TCtor \/ TSetupBegin \/ TSetupBuilt \/ TSetupThrew \/ TSolveThrew \/ TSolveEnter \/ TInitZero \/ TFMGMark
             \/ TSolveBegin \/ TResNorm \/ TCycleRun \/ TCycleDone \/ TSolveEnd \/ TOp
TraceSpec == TraceInit /\ [][TraceNext]_tvars

NotAccepted == l <= N
ASSUME N > 0      \* a missing or empty recording must never count as an accepted one
ASSUME TLCSet(1, 0)
Progress == IF TLCGet(1) < l THEN TLCSet(1, l) /\ PrintT(<<"@@L", l>>) ELSE TRUE
=============================================================================
