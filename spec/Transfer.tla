------------------------------ MODULE Transfer ------------------------------
(***************************************************************************)
(* Grid transfer operators of GMGPolar as exact rational WEIGHT TABLES     *)
(* (src/Interpolation/*.cpp): standard prolongation P, extrapolated        *)
(* prolongation P_ex, FMG interpolation FI, injection; restriction and     *)
(* extrapolated restriction are DEFINED as the transposes (that they are   *)
(* is what the conformance run checks on the code).  A state is one        *)
(* fine/coarse grid pair (coarse = every second fine node) with integer    *)
(* spacings; the per-node formulas are transcribed from the code, case by  *)
(* case (node parity, boundary / next-to-boundary / interior).             *)
(* Properties C08 / C09: copies coarse values, convex, reproduces          *)
(* constants, linear functions (P, P_ex), cubics (FI interior), linear     *)
(* fallback next to the boundaries; injection after any of them = Id.      *)
(***************************************************************************)
EXTENDS Integers, Sequences, FiniteSets, TLC, Json, Frac

CONSTANTS NrC,          \* numbers of coarse radii, e.g. {3,4}
          NtC,          \* numbers of coarse angular cells, e.g. {2,4}
          Sp,           \* fine spacings allowed, e.g. {1,2}
          Midpoint,     \* TRUE: only pairs where every fine node is the midpoint of its coarse neighbours
          HPer,         \* 0: every radial spacing pattern; n > 0: only patterns with period n (keeps the larger pairs affordable)
          EmitTables

VARIABLES g       \* [nr, nt, h (fine radial spacings, Seq), k (fine angular spacings, Seq of length nt)]
vars == <<g>>

H(i) == g.h[i + 1]                       \* fineGrid.radialSpacing(i), i in 0..nr-2
K(u) == g.k[(u % g.nt) + 1]              \* fineGrid.angularSpacing(u), periodic
HC(i) == H(2 * i) + H(2 * i + 1)         \* coarseGrid.radialSpacing(i)
KC(u) == K(2 * u) + K(2 * u + 1)         \* coarseGrid.angularSpacing(u)
NtCo == g.nt \div 2
NrCo == (g.nr + 1) \div 2
WrapC(u) == u % NtCo

W(ir, it, n, d) == [c |-> <<ir, WrapC(it)>>, w |-> FNorm(n, d)]
WF(ir, it, f) == [c |-> <<ir, WrapC(it)>>, w |-> f]

(* -------------------------- standard prolongation ------------------------ *)
\* applyProlongation0 / FINE_NODE_PROLONGATION: weights h1 * left + h2 * right (h1 = distance to the LEFT neighbour)
PW(ir, it) ==
  LET irc == ir \div 2
      itc == it \div 2
  IN IF ir % 2 = 0 /\ it % 2 = 0 THEN <<W(irc, itc, 1, 1)>>
     ELSE IF ir % 2 = 0 THEN LET k1 == K(it - 1) k2 == K(it) IN <<W(irc, itc, k1, k1 + k2), W(irc, itc + 1, k2, k1 + k2)>>
     ELSE IF it % 2 = 0 THEN LET h1 == H(ir - 1) h2 == H(ir) IN <<W(irc, itc, h1, h1 + h2), W(irc + 1, itc, h2, h1 + h2)>>
     ELSE LET h1 == H(ir - 1) h2 == H(ir) k1 == K(it - 1) k2 == K(it) dv == (h1 + h2) * (k1 + k2)
          IN <<W(irc, itc, h1 * k1, dv), W(irc + 1, itc, h2 * k1, dv), W(irc, itc + 1, h1 * k2, dv), W(irc + 1, itc + 1, h2 * k2, dv)>>

(* ------------------------ extrapolated prolongation ---------------------- *)
PXW(ir, it) ==
  LET irc == ir \div 2
      itc == it \div 2
  IN IF ir % 2 = 0 /\ it % 2 = 0 THEN <<W(irc, itc, 1, 1)>>
     ELSE IF ir % 2 = 0 THEN <<W(irc, itc, 1, 2), W(irc, itc + 1, 1, 2)>>
     ELSE IF it % 2 = 0 THEN <<W(irc, itc, 1, 2), W(irc + 1, itc, 1, 2)>>
     ELSE <<W(irc + 1, itc, 1, 2), W(irc, itc + 1, 1, 2)>>          \* bottom right and top left

(* ----------------------------- FMG interpolation ------------------------- *)
\* Lagrange weights for the point between x1 and x2 of four points with gaps a0, a1 | a2, a3 (a1, a2 fine gaps)
LW(a0, a1, a2, a3) ==
  <<FNeg(FMul(FMul(FNorm(a1, a0), FNorm(a2, a0 + a1 + a2)), FNorm(a2 + a3, a0 + a1 + a2 + a3))),
    FMul(FMul(FNorm(a0 + a1, a0), FNorm(a2, a1 + a2)), FNorm(a2 + a3, a1 + a2 + a3)),
    FMul(FMul(FNorm(a0 + a1, a0 + a1 + a2), FNorm(a1, a1 + a2)), FNorm(a2 + a3, a3)),
    FNeg(FMul(FMul(FNorm(a0 + a1, a0 + a1 + a2 + a3), FNorm(a1, a1 + a2 + a3)), FNorm(a2, a3)))>>
ThetaW(it) == LET itc == it \div 2 IN LW(KC(itc - 1), K(it - 1), K(it), KC(itc + 1))
RadW(ir) == LET irc == ir \div 2 IN LW(HC(irc - 1), H(ir - 1), H(ir), HC(irc + 1))
\* angular cubic through coarse row irc, scaled by f
ThetaRow(irc, it, f) == LET itc == it \div 2 w == ThetaW(it)
  IN <<WF(irc, itc - 1, FMul(f, w[1])), WF(irc, itc, FMul(f, w[2])), WF(irc, itc + 1, FMul(f, w[3])), WF(irc, itc + 2, FMul(f, w[4]))>>
FIW(ir, it) ==
  LET irc == ir \div 2
      itc == it \div 2
  IN IF ir = 0 \/ ir = g.nr - 1                                          \* Case 1: on the boundary
     THEN IF it % 2 = 1 THEN ThetaRow(irc, it, FOne) ELSE <<W(irc, itc, 1, 1)>>
     ELSE IF ir = 1 \/ ir = g.nr - 2                                     \* Case 2: next to the boundary: linear in r
     THEN LET h1 == H(ir - 1) h2 == H(ir)
          IN IF it % 2 = 1 THEN ThetaRow(irc, it, FNorm(h1, h1 + h2)) \o ThetaRow(irc + 1, it, FNorm(h2, h1 + h2))
             ELSE <<W(irc, itc, h1, h1 + h2), W(irc + 1, itc, h2, h1 + h2)>>
     ELSE IF ir % 2 = 1                                                  \* Case 3: interior
     THEN LET wr == RadW(ir)
          IN IF it % 2 = 1 THEN ThetaRow(irc - 1, it, wr[1]) \o ThetaRow(irc, it, wr[2]) \o ThetaRow(irc + 1, it, wr[3]) \o ThetaRow(irc + 2, it, wr[4])
             ELSE <<WF(irc - 1, itc, wr[1]), WF(irc, itc, wr[2]), WF(irc + 1, itc, wr[3]), WF(irc + 2, itc, wr[4])>>
     ELSE IF it % 2 = 1 THEN ThetaRow(irc, it, FOne) ELSE <<W(irc, itc, 1, 1)>>

(* -------------------------------- instances ------------------------------ *)
Double(sp) == [i \in 1..(2 * Len(sp)) |-> sp[((i - 1) % Len(sp)) + 1]]     \* second half repeats the first (antipodal partners)
Init == \E nrc \in NrC, ntc \in NtC :
          \E h \in [1..(2 * nrc - 2) -> Sp], kh \in [1..ntc -> Sp] :
             /\ g = [nr |-> 2 * nrc - 1, nt |-> 2 * ntc, h |-> h, k |-> Double(kh)]
             /\ (Midpoint => /\ \A i \in 1..(nrc - 1) : h[2 * i - 1] = h[2 * i]
                             /\ \A j \in 1..(ntc \div 2) : kh[2 * j - 1] = kh[2 * j])
             /\ ntc % 2 = 0
             /\ (HPer > 0 => \A i \in (HPer + 1)..(2 * nrc - 2) : h[i] = h[i - HPer])
Next == UNCHANGED g
Spec == Init /\ [][Next]_vars

(* -------------------------------- properties ----------------------------- *)
Fine == (0..(g.nr - 1)) \X (0..(g.nt - 1))
RECURSIVE SumW(_, _)
SumW(ws, i) == IF i > Len(ws) THEN FZero ELSE FAdd(ws[i].w, SumW(ws, i + 1))
IsMid(ir, it) == (ir % 2 = 1 => H(ir - 1) = H(ir)) /\ (it % 2 = 1 => K(it - 1) = K(it))

CopiesCoarse(T(_, _)) == \A p \in Fine : (p[1] % 2 = 0 /\ p[2] % 2 = 0) => T(p[1], p[2]) = << [c |-> <<p[1] \div 2, p[2] \div 2>>, w |-> FOne] >>
ReproConst(T(_, _)) == \A p \in Fine : SumW(T(p[1], p[2]), 1) = FOne
Convex(T(_, _)) == \A p \in Fine : \A i \in 1..Len(T(p[1], p[2])) : T(p[1], p[2])[i].w[1] >= 0
InRange(T(_, _)) == \A p \in Fine : \A i \in 1..Len(T(p[1], p[2])) : T(p[1], p[2])[i].c[1] \in 0..(NrCo - 1)

\* local coordinates around fine node (ir, it): radial offset of coarse row irc', angular offset of coarse column (unwrapped)
RECURSIVE SumH(_, _)
SumH(a, b) == IF a >= b THEN 0 ELSE H(a) + SumH(a + 1, b)          \* r(b) - r(a) for a <= b
ROff(ir, irc) == IF 2 * irc >= ir THEN SumH(ir, 2 * irc) ELSE -SumH(2 * irc, ir)
RECURSIVE SumK(_, _)
SumK(a, b) == IF a >= b THEN 0 ELSE K(a) + SumK(a + 1, b)
\* the code addresses coarse columns itc-1 .. itc+2 (unwrapped); recover the unwrapped column from the position in the row
\* linear reproduction in r: sum of w * (r_coarse - r_fine) = 0
ReproLinearR(T(_, _), p) == LET ws == T(p[1], p[2])
                                RECURSIVE acc(_)
                                acc(i) == IF i > Len(ws) THEN FZero ELSE FAdd(FMul(ws[i].w, FInt(ROff(p[1], ws[i].c[1]))), acc(i + 1))
                            IN acc(1) = FZero
\* P and P_ex address columns itc, itc+1 only: unwrapped offsets -k1 (itc, it odd), +k2 (itc+1), 0 (it even)
TOff2(it, itc) == IF it % 2 = 0 THEN 0 ELSE IF itc = WrapC(it \div 2) /\ ~(NtCo = 1) THEN -K(it - 1) ELSE K(it)
ReproLinearT(T(_, _), p) == LET ws == T(p[1], p[2])
                                RECURSIVE acc(_)
                                acc(i) == IF i > Len(ws) THEN FZero ELSE FAdd(FMul(ws[i].w, FInt(TOff2(p[2], ws[i].c[2]))), acc(i + 1))
                            IN acc(1) = FZero

\* C08: standard prolongation
P_Copies == CopiesCoarse(PW)
P_Const == ReproConst(PW)
P_Convex == Convex(PW) /\ InRange(PW)
\* linear functions are reproduced wherever the fine node is the midpoint of its coarse neighbours ...
P_LinearMid == \A p \in Fine : IsMid(p[1], p[2]) => (ReproLinearR(PW, p) /\ ReproLinearT(PW, p))
\* ... and the property demands it everywhere (violated on the pinned tree: weights attached to the wrong neighbour, F2)
P_LinearAll == \A p \in Fine : ReproLinearR(PW, p) /\ ReproLinearT(PW, p)
\* C08: extrapolated prolongation (applied between level 0 and 1, which is always a midpoint pair)
PX_Copies == CopiesCoarse(PXW)
PX_Const == ReproConst(PXW)
PX_Convex == Convex(PXW) /\ InRange(PXW)
PX_LinearMid == \A p \in Fine : IsMid(p[1], p[2]) => (ReproLinearR(PXW, p) /\ ReproLinearT(PXW, p))
\* C09: FMG interpolation
FI_Copies == CopiesCoarse(FIW)
FI_Const == ReproConst(FIW) /\ InRange(FIW)
\* cubic exactness of the 4-point rule: sum w_i x_i^p = 0 for p = 1..3 in local coordinates, any spacings
LagrangeExact(a0, a1, a2, a3) ==
  LET w == LW(a0, a1, a2, a3)
      x == <<-(a0 + a1), -a1, a2, a2 + a3>>
      mom(pw) == FAdd(FAdd(FMul(w[1], FInt(pw[1])), FMul(w[2], FInt(pw[2]))), FAdd(FMul(w[3], FInt(pw[3])), FMul(w[4], FInt(pw[4]))))
  IN /\ FAdd(FAdd(w[1], w[2]), FAdd(w[3], w[4])) = FOne
     /\ mom(x) = FZero
     /\ mom([i \in 1..4 |-> x[i] * x[i]]) = FZero
     /\ mom([i \in 1..4 |-> x[i] * x[i] * x[i]]) = FZero
FI_CubicR == \A ir \in 2..(g.nr - 3) : ir % 2 = 1 => LagrangeExact(HC(ir \div 2 - 1), H(ir - 1), H(ir), HC(ir \div 2 + 1))
FI_CubicT == \A it \in 0..(g.nt - 1) : it % 2 = 1 => LagrangeExact(KC(it \div 2 - 1), K(it - 1), K(it), KC(it \div 2 + 1))
\* radially interior rows use the cubic rule in r; the two lines next to the boundaries fall back to the linear rule
FI_RowKinds == \A p \in Fine : (p[1] % 2 = 1 /\ p[2] % 2 = 0) =>
                 Len(FIW(p[1], p[2])) = (IF p[1] = 1 \/ p[1] = g.nr - 2 THEN 2 ELSE 4)
FI_LinearFallbackMid == \A p \in Fine : ((p[1] = 1 \/ p[1] = g.nr - 2) /\ p[2] % 2 = 0 /\ IsMid(p[1], p[2])) => ReproLinearR(FIW, p)
FI_LinearFallbackAll == \A p \in Fine : ((p[1] = 1 \/ p[1] = g.nr - 2) /\ p[2] % 2 = 0) => ReproLinearR(FIW, p)

(* ------------------------------ expectation tables ----------------------- *)
Rows(T(_, _)) == [n \in 1..(g.nr * g.nt) |-> LET ir == (n - 1) \div g.nt it == (n - 1) % g.nt IN [f |-> <<ir, it>>, ws |-> T(ir, it)]]
Table == [nr |-> g.nr, nt |-> g.nt, h |-> g.h, k |-> g.k, P |-> Rows(PW), PX |-> Rows(PXW), FI |-> Rows(FIW)]
Emit == IF EmitTables THEN PrintT("@@CASE " \o ToJson(Table)) ELSE TRUE
=============================================================================
