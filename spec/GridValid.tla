------------------------------ MODULE GridValid ------------------------------
(***************************************************************************)
(* Which user-supplied coordinate vectors PolarGrid accepts                *)
(* (PolarGrid::checkParameters, reached by the vector constructor, the     *)
(* grid-file constructor and GMGPolar with load_grid_file).                *)
(* Angles are integers in units of 2 pi / M (M = Full), radii integers.    *)
(*   Accept     the checks of the code, one conjunct per `throw`           *)
(*   IdealValid what the rest of the library relies on (PolarGridSpec's     *)
(*              Antipodal, the across-origin stencil, the zebra colouring): *)
(*              radii positive and strictly increasing; angles start at 0,  *)
(*              end at the full circle, strictly increasing; ntheta EVEN    *)
(*              and node j + ntheta/2 is the point opposite to node j.      *)
(* AcceptIsValid: Accept <=> IdealValid for every candidate (C18: accepted   *)
(* grids are antipodally paired; everything else raises).                   *)
(* The decisions are emitted and compared with the real constructors.       *)
(***************************************************************************)
EXTENDS Integers, Sequences, FiniteSets, TLC, Json

CONSTANTS Full,         \* the full circle in angle units (even), e.g. 8
          RadVals,      \* candidate radius values, e.g. {-1, 0, 1, 2, 3}
          EmitTables
VARIABLES rad, ang
vars == <<rad, ang>>

Half == Full \div 2
\* sorted sequence of a set of integers
RECURSIVE SortedSeq(_)
SortedSeq(S) == IF S = {} THEN <<>> ELSE LET m == CHOOSE x \in S : \A y \in S : x <= y IN <<m>> \o SortedSeq(S \ {m})
Swap(s, i) == [k \in 1..Len(s) |-> IF k = i THEN s[i + 1] ELSE IF k = i + 1 THEN s[i] ELSE s[k]]
Dup(s, i) == [k \in 1..Len(s) |-> IF k = i + 1 THEN s[i] ELSE s[k]]

StrictlyIncreasing(s) == \A i \in 1..(Len(s) - 1) : s[i] < s[i + 1]
\* ---- the code, condition by condition
RadiiOK == Len(rad) >= 2 /\ (\A i \in 1..Len(rad) : rad[i] > 0) /\ StrictlyIncreasing(rad)
Opposite(t) == IF t + Half >= Full THEN t - Half ELSE t + Half
AnglesOK == /\ Len(ang) >= 3
            /\ \A i \in 1..Len(ang) : ang[i] >= 0
            /\ StrictlyIncreasing(ang)
            /\ ang[1] = 0 /\ ang[Len(ang)] = Full
            /\ \A i \in 1..Len(ang) : \E k \in 1..Len(ang) : ang[k] = Opposite(ang[i])
Accept == RadiiOK /\ AnglesOK
Reason == IF Len(rad) < 2 THEN "few-radii" ELSE IF \E i \in 1..Len(rad) : rad[i] <= 0 THEN "radius<=0"
          ELSE IF ~StrictlyIncreasing(rad) THEN "radii-order" ELSE IF Len(ang) < 3 THEN "few-angles"
          ELSE IF \E i \in 1..Len(ang) : ang[i] < 0 THEN "angle<0" ELSE IF ~StrictlyIncreasing(ang) THEN "angle-order"
          ELSE IF ang[1] # 0 THEN "first-angle" ELSE IF ang[Len(ang)] # Full THEN "last-angle"
          ELSE IF ~AnglesOK THEN "unpaired" ELSE "ok"

\* ---- what the library relies on
Nt == Len(ang) - 1
IdealValid ==
  /\ Len(rad) >= 2 /\ rad[1] > 0 /\ StrictlyIncreasing(rad)
  /\ Len(ang) >= 3 /\ ang[1] = 0 /\ ang[Len(ang)] = Full /\ StrictlyIncreasing(ang)
  /\ Nt % 2 = 0
  /\ \A j \in 0..(Nt - 1) : ang[((j + Nt \div 2) % Nt) + 1] = (ang[j + 1] + Half) % Full

AcceptIsValid == Accept <=> IdealValid

GoodRad == <<1, 2, 3>>
GoodAng == SortedSeq({0, Half, Full} \cup {Full \div 4, Full \div 4 + Half})
Init == \/ /\ ang = GoodAng                       \* every short radius vector over RadVals
           /\ \E n \in 0..3 : rad \in [1..n -> RadVals]
        \/ /\ rad = GoodRad                       \* every angle SET within 0..Full (sorted), and its disordered variants
           /\ \E S \in SUBSET (0..Full) : LET s == SortedSeq(S) IN
                \/ ang = s
                \/ \E i \in 1..(Len(s) - 1) : ang = Swap(s, i) \/ ang = Dup(s, i)
                \/ Len(s) >= 1 /\ ang = [k \in 1..Len(s) |-> IF k = 1 THEN s[1] - 1 ELSE s[k]]
Next == UNCHANGED vars
Spec == Init /\ [][Next]_vars

Emit == IF EmitTables THEN PrintT("@@CASE " \o ToJson([rad |-> rad, ang |-> ang, full |-> Full, accept |-> Accept, why |-> Reason])) ELSE TRUE
=============================================================================
