SPECIFICATION Spec
CONSTANTS
  Dims = {2,3,4}
  DiagVals <- QDiag
  SubVals <- QSub
  CornerVals <- QCorner
  MaxSolves = 2
  EmitTables = FALSE
INVARIANTS AlgSolves SecondSolveSame
