SPECIFICATION Spec
CONSTANTS
  NrSet = {5,6}
  NtSet = {4,8}
  Sp = {1,2}
  R0Set = {1}
  PaSet <- Pa3
  EmitTables = FALSE
INVARIANTS DirichletIdentity StencilShape Symmetric RowSumIsMass SignStructure SamePhaseUncoupled OverlapUncoupled LineBlockShape ExtrapolatedLineKinds
