SPECIFICATION Spec
CONSTANTS
  NrSet = {2,3,4,5,6,7,9}
  NtSet = {2,4,6,8,12,16}
  SpacingSet = {1,2,3}
  Uniform = TRUE
  EmitTables = FALSE
INVARIANTS Bijection InverseA InverseB FastIsRef WrapPeriodic Partition LineMajor NeighboursConsistent SpacingsConsistent Antipodal AutoSplitAssumptions CoarsenKeeps
