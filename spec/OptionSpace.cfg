SPECIFICATION Spec
CONSTANTS
  Depth = 6
  Mode = "all"
INVARIANTS RuleSound Emit
