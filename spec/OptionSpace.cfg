SPECIFICATION Spec
CONSTANTS Depth = 6
INVARIANTS RuleSound Emit
