------------------------------- MODULE Solver -------------------------------
(***************************************************************************)
(* Life cycle of one GMGPolar solver object (src/GMGPolar/setup.cpp,       *)
(* solver.cpp, gmgpolar.cpp): option changes, setup(), solve() with its    *)
(* iteration loop and statistics, and reuse of the object.                 *)
(*                                                                         *)
(* One action per statement-level step of the C++ (= one hook event).      *)
(* Numbers are TOKENS WITH PROVENANCE: the residual norm pushed in solve   *)
(* `sid` at iteration k is <<sid, k>>; the mean reduction factor is the    *)
(* pair of tokens it was formed from.  The few numeric facts control flow  *)
(* depends on (tolerance met? reduction factor above 0.7?) come from       *)
(* `memo`, a nondeterministic but CONSISTENT oracle keyed by the           *)
(* mathematically relevant history - the implementation-shaped variables   *)
(* and the `sh` (shadow = freshly constructed object given the same        *)
(* options) consult the same oracle, so they can only diverge through      *)
(* state the code carries over wrongly.                                    *)
(*                                                                         *)
(* FIXED selects which known defects the code-shaped actions have repaired *)
(* (all of them on the current tree; subsets are kept for the self-test).  *)
(***************************************************************************)
EXTENDS Integers, Sequences, FiniteSets, TLC, Json

CONSTANTS FIXED,        \* SUBSET {"F3","F4","F5","F6","F8","F18","F20"}
          MaxCalls,     \* bound on life-cycle calls (SetOpt / Setup / Solve) per behaviour
          MaxIterDom,   \* values maxIterations may take, e.g. {0, 2}
          ExtDom,       \* extrapolation values, subset of 0..3
          LDom,         \* number of levels the two grids give, e.g. {2,3}
          MiscDom,      \* abstract values of the remaining solve-relevant options (cycle type, smoothing steps, norm, FMG cycles)
          Settable,     \* options SetOpt may change (subset of OptNames)
          GenHist       \* TRUE: record the history of life-cycle calls (test-case generation)

VARIABLES opts, built, fgs, resNorms, exErrs, nIter, meanRho, initNorm, curNorm, start,
          sid, pc, k, mh, memo, sh, calls, stopped, justSolved, hist,
          tsolve    \* solve ids whose durations are contained in the public t_solve_* timings

vars == <<opts, built, fgs, resNorms, exErrs, nIter, meanRho, initNorm, curNorm, start,
          sid, pc, k, mh, memo, sh, calls, stopped, justSolved, hist, tsolve>>

UNSET == <<"unset">>     \* member never written since construction
UNDEF == <<"undef">>     \* local variable not assigned in this call
ONE   == <<"one">>       \* the value 1.0 (no reduction measured)
Tok(s, i) == <<"n", s, i>>
ETok(s, i) == <<"e", s, i>>
NoErr == <<"noerr">>

Fixed(f) == f \in FIXED

\* ---- options: setup-relevant (ext, fmg, L, take, caches) and solve-relevant (maxIter, absOn, relOn, fmgIts)
OptNames == {"ext", "fmg", "L", "take", "caches", "maxIter", "absOn", "relOn", "exact", "misc", "grid"}
Dom(o) == CASE o = "ext" -> ExtDom [] o = "L" -> LDom \cup {0} [] o = "maxIter" -> MaxIterDom [] o = "misc" -> MiscDom [] o = "grid" -> {0, 1}
            [] OTHER -> BOOLEAN
\* "grid": the problem size (divideBy2 refinements of the finest grid), as changed by the refinement loop of convergence_order.cpp
SetupRelevant == {"ext", "fmg", "L", "take", "caches", "grid"}

InitOpts == [ext |-> 0, fmg |-> FALSE, L |-> CHOOSE l \in LDom : TRUE, take |-> FALSE, caches |-> TRUE,
             maxIter |-> CHOOSE m \in MaxIterDom : m > 0, absOn |-> TRUE, relOn |-> TRUE, exact |-> TRUE,
             misc |-> CHOOSE m \in MiscDom : TRUE, grid |-> 0]

NoLevels == [valid |-> FALSE, ext |-> 0, fmg |-> FALSE, L |-> 0, take |-> FALSE, caches |-> TRUE, grid |-> 0, lv |-> 0]
\* L = the level cap as the user set it (0 = automatic: as many levels as the grid admits); lv = the number of levels setup() built
BuiltOf(o) == [valid |-> TRUE, ext |-> o.ext, fmg |-> o.fmg, L |-> o.L, take |-> o.take, caches |-> o.caches, grid |-> o.grid, lv |-> 0]

\* documented rejection rule of setup(): the take strategy needs both caches
Rejected(o) == o.take /\ ~o.caches

\* setup() was executed with the current values of the setup-relevant options
UpToDate == [built EXCEPT !.lv = 0] = BuiltOf(opts)

FgsOfSetup(e) == e \in {0, 2, 3}     \* setup.cpp: NONE / FULL_GRID / COMBINED start with full grid smoothing

\* the ideal (fresh object) record
FreshSh == [fgs |-> FALSE, start |-> <<"none">>, nIter |-> 0, meanRho |-> ONE, lastErr |-> NoErr, stopped |-> FALSE]

Init ==
  /\ opts = InitOpts /\ built = NoLevels /\ fgs = FALSE
  /\ resNorms = <<>> /\ exErrs = <<>>
  /\ nIter = -1 /\ meanRho = UNSET      \* -1: number_of_iterations_ is not initialised by the constructors
  /\ initNorm = UNDEF /\ curNorm = UNDEF /\ start = <<"none">>
  /\ sid = 0 /\ pc = "idle" /\ k = 0 /\ mh = <<>>
  /\ memo = <<>> /\ sh = FreshSh /\ calls = 0 /\ stopped = FALSE /\ justSolved = FALSE /\ hist = <<>> /\ tsolve = {}

(* ------------------------------ life-cycle calls ------------------------- *)
SetOpt(o, v) ==
  /\ pc = "idle" /\ calls < MaxCalls
  /\ v \in Dom(o) /\ opts[o] # v
  /\ opts' = [opts EXCEPT ![o] = v]
  /\ calls' = calls + 1
  /\ UNCHANGED <<built, fgs, resNorms, exErrs, nIter, meanRho, initNorm, curNorm, start, sid, pc, k, mh, memo, sh, stopped>>
  /\ justSolved' = FALSE
  /\ hist' = IF GenHist THEN Append(hist, [a |-> "SetOpt", name |-> o, val |-> v]) ELSE hist
  /\ UNCHANGED tsolve

SetupReject ==
  /\ pc = "idle" /\ calls < MaxCalls /\ Rejected(opts)
  /\ calls' = calls + 1
  \* the exception leaves everything that setup() builds untouched
  /\ UNCHANGED <<opts, built, fgs, resNorms, exErrs, nIter, meanRho, initNorm, curNorm, start, sid, pc, k, mh, memo, sh, stopped>>
  /\ justSolved' = FALSE
  /\ hist' = IF GenHist THEN Append(hist, [a |-> "Setup", name |-> "", val |-> 0]) ELSE hist
  /\ UNCHANGED tsolve

SetupBuild ==
  /\ pc = "idle" /\ calls < MaxCalls /\ ~Rejected(opts)
  /\ \E lv \in (IF opts.L = 0 THEN LDom ELSE {opts.L}) : built' = [BuiltOf(opts) EXCEPT !.lv = lv]
  /\ fgs' = FgsOfSetup(opts.ext)
  /\ start' = <<"fresh-vectors">>      \* new Levels: zero-initialised work vectors
  /\ calls' = calls + 1
  /\ UNCHANGED <<opts, resNorms, exErrs, nIter, meanRho, initNorm, curNorm, sid, pc, k, mh, memo, sh, stopped>>
  /\ justSolved' = FALSE
  /\ hist' = IF GenHist THEN Append(hist, [a |-> "Setup", name |-> "", val |-> 0]) ELSE hist
  /\ tsolve' = {}                    \* resetTimings()

\* ---- solve(): initializeSolution()
\* the start vector: zero, or the nested iteration; FMG with the defect F8 leaves the finest solution vector as it
\* was when only two levels exist (and never uses the coarsest solve otherwise)
\* the nested iteration runs its finest-level cycles with the smoother mode in force when it starts (only the implicitly
\* extrapolated cycles look at it); a fresh object starts it in the mode setup() chose.  F20: solve() re-armed the COMBINED
\* strategy only AFTER initializeSolution(), so a second solve after a switch ran its FMG start-up with the stale mode
StartMode(f) == IF opts.ext # 0 THEN f ELSE TRUE
\* F5: solve() re-arms the strategy at all; F20: it does so before the start-up (both repaired = the current code)
FgsAtStart == IF Fixed("F5") /\ Fixed("F20") /\ opts.ext = 3 THEN TRUE ELSE fgs
StartIdeal == IF opts.fmg THEN <<"fmg", built.lv, StartMode(FgsOfSetup(opts.ext))>> ELSE <<"zero">>
StartCode ==
  IF ~opts.fmg THEN <<"zero">>
  ELSE IF Fixed("F8") THEN <<"fmg", built.lv, StartMode(FgsAtStart)>>
  ELSE IF built.lv = 2 THEN (IF start = <<"fresh-vectors">> THEN <<"zero">> ELSE <<"stale", sid>>)
  ELSE <<"fmg-without-coarsest", built.lv>>

\* solve() checks that setup() built what the options now in effect need (coarse right-hand sides exist only for the
\* extrapolation / FMG settings of the last setup()); otherwise it throws before touching anything (repair of F16)
MissingRhs == ~built.valid \/ (opts.ext # 0 /\ built.ext = 0) \/ (opts.fmg /\ ~built.fmg /\ ~(built.lv = 2 /\ built.ext # 0))
SolveReject ==
  /\ pc = "idle" /\ calls < MaxCalls /\ MissingRhs
  /\ calls' = calls + 1 /\ justSolved' = FALSE
  /\ hist' = IF GenHist THEN Append(hist, [a |-> "Solve", name |-> "", val |-> 0]) ELSE hist
  /\ UNCHANGED <<opts, built, fgs, resNorms, exErrs, nIter, meanRho, initNorm, curNorm, start, sid, pc, k, mh, memo, sh, stopped>>
  /\ UNCHANGED tsolve

\* a solve on a hierarchy that was built for other options may stop with an exception when it reaches an operator
\* that setup() did not construct (e.g. the extrapolated smoother); never when setup() is up to date
SolveAbort ==
  /\ pc \notin {"idle"} /\ ~UpToDate
  /\ pc' = "idle" /\ justSolved' = FALSE
  /\ UNCHANGED <<opts, built, fgs, resNorms, exErrs, nIter, meanRho, initNorm, curNorm, start, sid, k, mh, memo, sh, calls, stopped, hist>>
  /\ UNCHANGED tsolve

SolveEnter ==
  /\ pc = "idle" /\ calls < MaxCalls /\ built.valid /\ ~MissingRhs
  /\ sid' = sid + 1
  /\ start' = StartCode
  /\ pc' = "begin"
  /\ calls' = calls + 1
  /\ sh' = [FreshSh EXCEPT !.fgs = FgsOfSetup(opts.ext), !.start = StartIdeal]
  /\ fgs' = FgsAtStart                 \* repaired code: the COMBINED strategy is re-armed before the start-up
  /\ UNCHANGED <<opts, built, resNorms, exErrs, nIter, meanRho, initNorm, curNorm, k, mh, memo, stopped>>
  /\ justSolved' = FALSE
  /\ hist' = IF GenHist THEN Append(hist, [a |-> "Solve", name |-> "", val |-> 0]) ELSE hist
  /\ tsolve' = IF Fixed("F18") THEN {sid + 1} ELSE tsolve \cup {sid + 1}     \* t_solve_* += ...

\* number_of_iterations_ = 0; histories cleared; smoother mode re-armed; factor initialised; locals declared
SolveBegin ==
  /\ pc = "begin"
  /\ nIter' = 0 /\ k' = 0 /\ mh' = <<>> /\ stopped' = FALSE
  /\ resNorms' = IF Fixed("F3") THEN <<>> ELSE resNorms
  /\ exErrs' = IF Fixed("F4") THEN <<>> ELSE exErrs
  /\ fgs' = IF Fixed("F5") /\ opts.ext = 3 THEN TRUE ELSE fgs
  /\ meanRho' = IF Fixed("F6") THEN ONE ELSE meanRho
  /\ initNorm' = UNDEF /\ curNorm' = UNDEF
  /\ pc' = "head"
  /\ UNCHANGED <<opts, built, start, sid, memo, sh, calls, justSolved>>
  /\ UNCHANGED hist
  /\ UNCHANGED tsolve

\* while (number_of_iterations_ < max_iterations_)
LoopHead ==
  /\ pc = "head"
  /\ pc' = IF k < opts.maxIter THEN "err" ELSE "stats"
  /\ UNCHANGED <<opts, built, fgs, resNorms, exErrs, nIter, meanRho, initNorm, curNorm, start, sid, k, mh, memo, sh, calls, stopped, justSolved>>
  /\ UNCHANGED hist
  /\ UNCHANGED tsolve

\* exact error of the current iterate, if an exact solution is known
ExactErr ==
  /\ pc = "err"
  /\ IF opts.exact
     THEN /\ exErrs' = Append(exErrs, ETok(sid, k))
          /\ sh' = [sh EXCEPT !.lastErr = ETok(sid, k)]
     ELSE UNCHANGED <<exErrs, sh>>
  /\ pc' = IF opts.absOn \/ opts.relOn THEN "norm" ELSE "cycle"
  /\ UNCHANGED <<opts, built, fgs, resNorms, nIter, meanRho, initNorm, curNorm, start, sid, k, mh, memo, calls, stopped, justSolved, hist>>
  /\ UNCHANGED tsolve

\* oracle key: what the numbers of iteration k of this solve can depend on
Key == <<built, opts.absOn, opts.relOn, opts.misc, start, mh, k>>

\* residual norm: push_back, locals, the reduction-factor read and the COMBINED switch, the stop test
ResNorm(met, bad) ==
  /\ pc = "norm"
  /\ (Key \in DOMAIN memo => met = memo[Key].met /\ bad = memo[Key].bad)      \* same history => same numbers
  /\ memo' = IF Key \in DOMAIN memo THEN memo ELSE memo @@ (Key :> [met |-> met, bad |-> bad])
  /\ LET tok == Tok(sid, k)
         norms == Append(resNorms, tok)
         \* residual_norms_[number_of_iterations_] / residual_norms_[number_of_iterations_ - 1]
         num == norms[k + 1]
         den == IF k >= 1 THEN norms[k] ELSE num
         \* the factor the code reads is the factor of THIS iteration only if both tokens are the current solve's
         \* k-th and (k-1)-th norms; otherwise it is some other number: the model takes the worst case
         codeBad == IF k = 0 THEN FALSE ELSE IF num = Tok(sid, k) /\ den = Tok(sid, k - 1) THEN bad ELSE TRUE
         idealBad == IF k = 0 THEN FALSE ELSE bad
     IN /\ resNorms' = norms
        /\ curNorm' = tok
        /\ initNorm' = IF k = 0 THEN tok ELSE initNorm
        /\ fgs' = IF k > 0 /\ opts.ext = 3 /\ fgs /\ codeBad THEN FALSE ELSE fgs
        /\ sh' = [sh EXCEPT !.fgs = IF k > 0 /\ opts.ext = 3 /\ sh.fgs /\ idealBad THEN FALSE ELSE sh.fgs,
                            !.stopped = met]
  /\ stopped' = met
  /\ pc' = IF met THEN "stats" ELSE "cycle"
  /\ UNCHANGED <<opts, built, exErrs, nIter, meanRho, start, sid, k, mh, calls, justSolved, hist>>
  /\ UNCHANGED tsolve

\* one multigrid cycle, then number_of_iterations_++
RunCycle ==
  /\ pc = "cycle"
  /\ mh' = Append(mh, fgs)
  /\ k' = k + 1 /\ nIter' = k + 1
  /\ sh' = [sh EXCEPT !.nIter = k + 1]
  /\ pc' = "head"
  /\ UNCHANGED <<opts, built, fgs, resNorms, exErrs, meanRho, initNorm, curNorm, start, sid, memo, calls, stopped, justSolved>>
  /\ UNCHANGED hist
  /\ UNCHANGED tsolve

\* if (number_of_iterations_ > 0) mean_residual_reduction_factor_ = pow(current / initial, 1 / n)
ComputeStats ==
  /\ pc = "stats"
  /\ meanRho' = IF k > 0
                THEN IF Fixed("F6") /\ Len(resNorms) = 0 THEN meanRho
                     ELSE <<"ratio", curNorm, initNorm>>
                ELSE meanRho
  /\ sh' = [sh EXCEPT !.meanRho = IF k > 0 /\ (opts.absOn \/ opts.relOn)
                                  THEN <<"ratio", Tok(sid, IF stopped THEN k ELSE k - 1), Tok(sid, 0)>> ELSE ONE]
  /\ pc' = "idle"
  /\ UNCHANGED <<opts, built, fgs, resNorms, exErrs, nIter, initNorm, curNorm, start, sid, k, mh, memo, calls, stopped>>
  /\ justSolved' = TRUE
  /\ UNCHANGED hist
  /\ UNCHANGED tsolve

Next ==
  \/ \E o \in Settable \cap {"ext", "L", "maxIter", "misc", "grid"}, v \in ExtDom \cup LDom \cup MaxIterDom \cup MiscDom \cup {0, 1} : SetOpt(o, v)
  \/ \E o \in Settable \ {"ext", "L", "maxIter", "misc", "grid"}, v \in BOOLEAN : SetOpt(o, v)
  \/ SetupReject \/ SetupBuild \/ SolveReject \/ SolveAbort \/ SolveEnter \/ SolveBegin \/ LoopHead \/ ExactErr
  \/ \E met \in BOOLEAN, bad \in BOOLEAN : ResNorm(met, bad)
  \/ RunCycle \/ ComputeStats

Spec == Init /\ [][Next]_vars

(* ------------------------------- properties ------------------------------ *)
\* what the public getters return after a solve
GetErr == IF opts.exact
          THEN IF Len(exErrs) = 0 THEN (IF Fixed("F6") THEN NoErr ELSE <<"undefined-back">>) ELSE exErrs[Len(exErrs)]
          ELSE NoErr
AfterSolve == pc = "idle" /\ justSolved

\* C13 domain: the solve just finished ran on a hierarchy built with the current setup-relevant options
InC13Domain == AfterSolve /\ UpToDate

\* C13 - the smoother mode used in every cycle is the one a fresh object would use
ModeAgrees == (pc = "cycle" /\ UpToDate) => fgs = sh.fgs
\* C09/C13 - the start vector is a function of the problem data only
StartIsData == (pc \in {"head", "err", "norm", "cycle", "stats"} /\ UpToDate) => start = sh.start
\* C13 - statistics describe this solve only, and equal the fresh object's
StatsFresh == InC13Domain => /\ nIter = sh.nIter
                             /\ meanRho = sh.meanRho
                             /\ GetErr = sh.lastErr
\* C13 - the timing statistics describe this solve only
TimingsOwn == AfterSolve => tsolve = {sid}
\* C20 - nothing undefined or unset is ever reported
Defined(x) == x # UNSET /\ x # UNDEF
StatsDefined == AfterSolve => /\ nIter >= 0 /\ Defined(meanRho)
                              /\ (meanRho[1] = "ratio" => Defined(meanRho[2]) /\ Defined(meanRho[3]))
                              /\ GetErr # <<"undefined-back">>
\* C13 - the histories the factor read and the getters index hold entries of the current solve only, in order
HistoriesOwn == (pc \in {"head", "err", "norm", "cycle", "stats"}) =>
                  /\ \A i \in 1..Len(resNorms) : resNorms[i] = Tok(sid, i - 1)
                  /\ \A i \in 1..Len(exErrs) : exErrs[i] = ETok(sid, i - 1)
\* C01 - a reported convergence is true: the loop is left early only when the oracle said the tolerance is met
\* for the norm of the CURRENT iterate (token <<sid, k>>), and no cycle runs afterwards
StopTruth == (pc = "stats" /\ stopped) => /\ curNorm = Tok(sid, k)
                                           /\ (opts.absOn \/ opts.relOn)
\* C20 - setup either rejects (and leaves the hierarchy alone) or builds what the options say
RejectOrRun == built.valid => ~(built.take /\ ~built.caches)

\* ---- test-case generation (simulation): print a history when a behaviour has used its calls and ended in a solve
GenEmit == IF GenHist /\ pc = "idle" /\ justSolved /\ calls >= MaxCalls - 1
           THEN PrintT("@@CASE " \o ToJson([ctor |-> InitOpts, steps |-> hist])) ELSE TRUE
\* keep random walks from wandering through option changes only
GenConstraint == Len(hist) < 3 \/ ~(hist[Len(hist)].a = "SetOpt" /\ hist[Len(hist) - 1].a = "SetOpt" /\ hist[Len(hist) - 2].a = "SetOpt")
=============================================================================
