------------------------------ MODULE OmpModel ------------------------------
(***************************************************************************)
(* Interleaving semantics of one OpenMP parallel region: a team of threads *)
(* runs a sequence of work-sharing loops; a loop without `nowait` ends     *)
(* with a barrier.  No schedule clause: any thread in a loop may take any  *)
(* remaining iteration of that loop; a thread may move on to the next loop *)
(* whenever it is idle (its share is whatever the runtime gave it).        *)
(* Take and Finish are separate steps, so two iterations being active at   *)
(* the same time is a STATE.  NoRace: no two threads are simultaneously    *)
(* inside iterations with conflicting footprints.  The instance is read    *)
(* from a JSON file so that TLC can be run on generated and on observed    *)
(* tables; EpochDisjoint is the closed form used for large tables, and     *)
(* ClosedFormAgrees states the direction that makes it sound.              *)
(***************************************************************************)
EXTENDS Integers, Sequences, FiniteSets, TLC, Json, IOUtils

Inst == ndJsonDeserialize(IOEnv.OMPINST)[1]
\* Inst = [threads |-> n, loops |-> Seq([nowait |-> 0/1, tasks |-> Seq([r |-> Seq, w |-> Seq])])]
Threads == 1..Inst.threads
NL == Len(Inst.loops)
Tasks(l) == 1..Len(Inst.loops[l].tasks)
SetOf(s) == {s[i] : i \in 1..Len(s)}
FPW(l, i) == SetOf(Inst.loops[l].tasks[i].w)
FPR(l, i) == SetOf(Inst.loops[l].tasks[i].r)
Conflict(a, b) == (FPW(a[1], a[2]) \cap (FPR(b[1], b[2]) \cup FPW(b[1], b[2])) # {}) \/ (FPW(b[1], b[2]) \cap FPR(a[1], a[2]) # {})

VARIABLES pos,     \* pos[t]: loop the thread is in (NL+1 = left the region)
          cur,     \* cur[t]: <<loop, iteration>> being executed, or <<0,0>>
          left,    \* left[l]: iterations of loop l not yet handed out
          arrived  \* arrived[l]: threads waiting at the barrier that ends loop l
vars == <<pos, cur, left, arrived>>
Idle == <<0, 0>>

Init == /\ pos = [t \in Threads |-> 1] /\ cur = [t \in Threads |-> Idle]
        /\ left = [l \in 1..NL |-> Tasks(l)] /\ arrived = [l \in 1..NL |-> {}]
Take(t, i) == /\ pos[t] <= NL /\ cur[t] = Idle /\ t \notin arrived[pos[t]] /\ i \in left[pos[t]]
              /\ cur' = [cur EXCEPT ![t] = <<pos[t], i>>] /\ left' = [left EXCEPT ![pos[t]] = @ \ {i}]
              /\ UNCHANGED <<pos, arrived>>
Finish(t) == cur[t] # Idle /\ cur' = [cur EXCEPT ![t] = Idle] /\ UNCHANGED <<pos, left, arrived>>
\* leave a nowait loop / arrive at the barrier of a loop
Leave(t) == /\ pos[t] <= NL /\ cur[t] = Idle /\ t \notin arrived[pos[t]]
            /\ IF Inst.loops[pos[t]].nowait = 1
               THEN pos' = [pos EXCEPT ![t] = @ + 1] /\ UNCHANGED arrived
               ELSE arrived' = [arrived EXCEPT ![pos[t]] = @ \cup {t}] /\ UNCHANGED pos
            /\ UNCHANGED <<cur, left>>
\* the barrier opens when the whole team has arrived (all iterations of the loops before it are done by then)
Release(l) == /\ arrived[l] = Threads /\ left[l] = {}
              /\ pos' = [t \in Threads |-> IF pos[t] = l THEN l + 1 ELSE pos[t]]
              /\ arrived' = [arrived EXCEPT ![l] = {}]
              /\ UNCHANGED <<cur, left>>
Next == \/ \E t \in Threads : (\E i \in 1..20 : Take(t, i)) \/ Finish(t) \/ Leave(t)
        \/ \E l \in 1..NL : Release(l)
Spec == Init /\ [][Next]_vars

NoRace == \A t \in Threads, u \in Threads : (t < u /\ cur[t] # Idle /\ cur[u] # Idle) => ~Conflict(cur[t], cur[u])

\* closed form: epoch of loop l = number of barrier loops before it
RECURSIVE Epoch(_)
Epoch(l) == IF l = 1 THEN 0 ELSE Epoch(l - 1) + (IF Inst.loops[l - 1].nowait = 1 THEN 0 ELSE 1)
AllTasks == {<<l, i>> : l \in 1..NL, i \in 1..20} \cap {x \in (1..NL) \X (1..20) : x[2] \in Tasks(x[1])}
EpochDisjoint == \A a \in AllTasks, b \in AllTasks : (a # b /\ Epoch(a[1]) = Epoch(b[1])) => ~Conflict(a, b)
\* soundness of the closed form: whenever it holds, no reachable state has a race
ClosedFormSound == EpochDisjoint => NoRace
\* two simultaneously active iterations always share an epoch (what makes the closed form complete for teams >= 2)
ActiveShareEpoch == \A t \in Threads, u \in Threads : (t # u /\ cur[t] # Idle /\ cur[u] # Idle) => Epoch(cur[t][1]) = Epoch(cur[u][1])
=============================================================================
