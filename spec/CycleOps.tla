------------------------------ MODULE CycleOps ------------------------------
(***************************************************************************)
(* The multigrid cycles, the FMG start-up, the residual evaluation of the  *)
(* stopping test and the right-hand-side set-up of GMGPolar as PROGRAMS:   *)
(* sequences of operator applications <<op, level, a, b, c>> on the work   *)
(* vectors (a, b, c = 4 * level + role, role 0 solution, 1 rhs, 2 residual, *)
(* 3 error_correction; -2 = operand not used).  One instruction per C++    *)
(* statement of src/GMGPolar/MultigridMethods/*.cpp, solver.cpp, setup.cpp. *)
(*                                                                         *)
(* Two uses:                                                               *)
(*  - design level: Run(program) on the buffer machine of Cycle.tla equals  *)
(*    the code-shaped machine Cyc / CycX / InitFMG (ProgramAgrees), whose   *)
(*    refinement of the mathematical definition Cycle.tla proves; the      *)
(*    set-up program leaves Disc(l, Inj^l(Build)) on every level that gets  *)
(*    a right-hand side (SetupRhs);                                        *)
(*  - code level: the guarded "Op" hooks of the library emit exactly these *)
(*    instructions; TraceOps.tla checks every recorded solve against the   *)
(*    programs (every cycle of every whole-solver run of C01/C09/C13).     *)
(***************************************************************************)
EXTENDS Cycle

RoleNo(f) == CASE f = "sol" -> 0 [] f = "rhs" -> 1 [] f = "res" -> 2 [] f = "err" -> 3
RoleOf(n) == CASE n = 0 -> "sol" [] n = 1 -> "rhs" [] n = 2 -> "res" [] n = 3 -> "err"
Id(k) == 4 * k[1] + RoleNo(k[2])
KeyOf(id) == <<id \div 4, RoleOf(id % 4)>>
NoArg == -2

NoLev == -1        \* the vector kernels (assign, add, linear_combination) are level free
LinCode == 71      \* 16 * (3 * 4/3) + (3 * -1/3) + 8: the coefficients of linear_combination as logged by the hook
ILin(a, b) == <<"Lin", NoLev, Id(a), Id(b), LinCode>>
I1(op, l, a) == <<op, l, Id(a), NoArg, NoArg>>
I2(op, l, a, b) == <<op, l, Id(a), Id(b), NoArg>>
I3(op, l, a, b, c) == <<op, l, Id(a), Id(b), Id(c)>>
\* ghost instruction (no event): intern the content of vector a under the name of the call path
INm(a, path) == <<"Name", path, Id(a), NoArg, NoArg>>
Ghost(o) == o[1] \in {"Name"}

RECURSIVE Rep(_, _)
Rep(n, o) == IF n = 0 THEN <<>> ELSE <<o>> \o Rep(n - 1, o)

(* ------------------------------ the programs ----------------------------- *)
RECURSIVE PCyc(_, _, _, _, _, _, _)
PCyc(c, kind, d, sol, rhs, res, path) ==
  LET nres == Key(d + 1, "res")
      nerr == Key(d + 1, "err")
      nsol == Key(d + 1, "sol")
      rr == IF "swapRhs" \in Defects THEN Key(d + 1, "rhs") ELSE nerr
      coarse == IF d + 1 = c.L - 1
                THEN <<I2("R", d, nres, res), INm(nres, path), I1("D", d + 1, nres)>>
                ELSE <<I2("R", d, rr, res), INm(rr, path)>>
                     \o (IF "noZero" \in Defects THEN <<>> ELSE <<I1("Zero", NoLev, nres)>>)
                     \o (CASE kind = "V" -> PCyc(c, "V", d + 1, nres, rr, nsol, Append(path, 1))
                           [] kind = "W" -> PCyc(c, "W", d + 1, nres, rr, nsol, Append(path, 1)) \o PCyc(c, "W", d + 1, nres, rr, nsol, Append(path, 2))
                           [] kind = "F" -> PCyc(c, "F", d + 1, nres, rr, nsol, Append(path, 1)) \o PCyc(c, "V", d + 1, nres, rr, nsol, Append(path, 2)))
  IN Rep(c.nu1, I3("S", d, sol, rhs, res)) \o <<I3("Res", d, res, rhs, sol)>> \o coarse
     \o <<I2("P", d + 1, res, nres), I2("Add", NoLev, sol, res)>> \o Rep(c.nu2, I3("S", d, sol, rhs, res))

PCycX(c, kind, sol, rhs, res, xs, path) ==
  LET nres == Key(1, "res")
      nerr == Key(1, "err")
      nsol == Key(1, "sol")
      nrhs == Key(1, "rhs")
      sm == I3(IF xs THEN "SX" ELSE "S", 0, sol, rhs, res)
      coarse == IF 1 = c.L - 1
                THEN <<I2("RX", 0, nres, res), I2("Inj", 0, nsol, sol), I3("Res", 1, nerr, nrhs, nsol), ILin(nres, nerr),
                       INm(nres, path), I1("D", 1, nres)>>
                ELSE <<I2("RX", 0, nerr, res), I2("Inj", 0, nsol, sol), I3("Res", 1, nres, nrhs, nsol), ILin(nerr, nres),
                       INm(nerr, path), I1("Zero", NoLev, nres)>>
                     \o (CASE kind = "V" -> PCyc(c, "V", 1, nres, nerr, nsol, Append(path, 1))
                           [] kind = "W" -> PCyc(c, "W", 1, nres, nerr, nsol, Append(path, 1)) \o PCyc(c, "W", 1, nres, nerr, nsol, Append(path, 2))
                           [] kind = "F" -> PCyc(c, "F", 1, nres, nerr, nsol, Append(path, 1)) \o PCyc(c, "V", 1, nres, nerr, nsol, Append(path, 2)))
  IN Rep(c.nu1, sm) \o <<I3("Res", 0, res, rhs, sol)>> \o coarse \o <<I2("PX", 1, res, nres), I2("Add", NoLev, sol, res)>> \o Rep(c.nu2, sm)

\* one cycle started by solve() or by the FMG loop on level d
PTop(c, kind, d, ext, xs, i) ==
  IF d = 0 /\ ext THEN PCycX(c, kind, Key(0, "sol"), Key(0, "rhs"), Key(0, "res"), xs, <<d, i>>)
  ELSE PCyc(c, kind, d, Key(d, "sol"), Key(d, "rhs"), Key(d, "res"), <<d, i>>)
RECURSIVE PCycN(_, _, _, _, _, _, _)
PCycN(n, c, kind, d, ext, xs, i) == IF n = 0 THEN <<>> ELSE PTop(c, kind, d, ext, xs, i) \o PCycN(n - 1, c, kind, d, ext, xs, i + 1)
PFMGDirect(c) == LET top == c.L - 1 IN <<I2("Copy", top, Key(top, "sol"), Key(top, "rhs")), I1("D", top, Key(top, "sol"))>>
PFMGInterp(cur) == <<I2("FI", cur, Key(cur - 1, "sol"), Key(cur, "sol"))>>
RECURSIVE PFMGLoop(_, _, _, _, _, _)
PFMGLoop(c, kind, its, cur, ext, xs) ==
  IF cur <= 0 THEN <<>>
  ELSE PFMGInterp(cur) \o PCycN(its, c, kind, cur - 1, ext, xs, 1) \o PFMGLoop(c, kind, its, cur - 1, ext, xs)
PInitFMG(c, kind, its, ext, xs) ==
  PFMGDirect(c) \o PFMGLoop(c, kind, its, IF "F8" \in Defects THEN c.L - 2 ELSE c.L - 1, ext, xs)
PInitZero == <<I1("Zero", NoLev, Key(0, "sol"))>>

\* the residual of the stopping test (solver.cpp): plain, or implicitly extrapolated with the level-1 residual of the injected iterate
PResNorm(ext) ==
  <<I3("Res", 0, Key(0, "res"), Key(0, "rhs"), Key(0, "sol"))>>
  \o (IF ext THEN <<I2("Inj", 0, Key(1, "sol"), Key(0, "sol")), I3("Res", 1, Key(1, "res"), Key(1, "rhs"), Key(1, "sol")),
                    I2("XR", 0, Key(0, "res"), Key(1, "res"))>> ELSE <<>>)

\* setup(): continuous right-hand side on level 0, injected level by level BEFORE each level is discretised
RhsLevels(L, ext, fmg) == IF fmg THEN L ELSE IF ext THEN 2 ELSE 1
RECURSIVE PRhs(_, _)
PRhs(d, n) == IF d >= n THEN <<>>
              ELSE (IF d + 1 < n THEN <<I2("Inj", d, Key(d + 1, "rhs"), Key(d, "rhs"))>> ELSE <<>>) \o <<I1("Disc", d, Key(d, "rhs"))>> \o PRhs(d + 1, n)
PSetup(L, ext, fmg) == <<I1("Build", 0, Key(0, "rhs"))>> \o PRhs(0, RhsLevels(L, ext, fmg))

(* ------------------------------ interpretation --------------------------- *)
Apply(b, o) ==
  LET a == KeyOf(o[3])
      bb == KeyOf(o[4])
      cc == KeyOf(o[5])
  IN CASE o[1] = "S" -> OpSmooth(b, FALSE, o[2], a, bb, cc)
       [] o[1] = "SX" -> OpSmooth(b, TRUE, o[2], a, bb, cc)
       [] o[1] = "Res" -> OpResidual(b, o[2], a, bb, cc)
       [] o[1] \in {"R", "RX", "Inj", "P", "PX", "FI"} -> OpUnary(b, o[1], o[2], a, bb)
       [] o[1] = "D" -> OpDirect(b, o[2], a)
       [] o[1] = "Zero" -> OpAssignZero(b, a)
       [] o[1] = "Add" -> OpAdd(b, a, bb)
       [] o[1] = "Lin" /\ o[5] = LinCode -> OpLin(b, a, "4/3", bb, "-1/3")
       [] o[1] = "Copy" -> OpCopy(b, a, bb)
       [] o[1] = "Name" -> OpName(b, a, o[2])
       [] o[1] = "Build" -> Put(b, a, <<"Raw">>)
       [] o[1] = "Disc" -> Put(b, a, <<"Disc", o[2], Get(b, a)>>)
       [] o[1] = "XR" -> Put(b, a, <<"XR", Get(b, a), Get(b, bb)>>)
RECURSIVE RunFrom(_, _, _)
RunFrom(b, prog, i) == IF i > Len(prog) THEN b ELSE RunFrom(Apply(b, prog[i]), prog, i + 1)
Run(b, prog) == RunFrom(b, prog, 1)

(* ------------------------------- properties ------------------------------ *)
Program == IF cfg.fmg THEN PInitFMG(C, cfg.fkind, cfg.its, cfg.ext, cfg.xs) ELSE PTop(C, cfg.kind, 0, cfg.ext, cfg.xs, 1)
\* the program, interpreted, IS the code-shaped machine whose refinement of MG / MGX / FMGStart Cycle.tla proves
ProgramAgrees == Done => Run(result.before, Program) = result.after
\* no instruction reads or writes a vector the level does not allocate, none aliases its operands
ProgramClean == Done => Run(result.before, Program).err = ""

\* after the set-up program every level with a right-hand side holds the discretisation of the injected continuous data
RECURSIVE InjRaw(_)
InjRaw(l) == IF l = 0 THEN <<"Raw">> ELSE <<"Inj", l - 1, InjRaw(l - 1)>>
RhsBuf == [err |-> "", defs |-> <<>>, v |-> [k \in (0..(cfg.L - 1)) \X Fields |-> Stale(k[1], k[2])]]
SetupRhs == LET after == Run(RhsBuf, PSetup(cfg.L, cfg.ext, cfg.fmg))
            IN /\ after.err = ""
               /\ \A l \in 0..(cfg.L - 1) :
                    IF l < RhsLevels(cfg.L, cfg.ext, cfg.fmg) THEN Get(after, Key(l, "rhs")) = <<"Disc", l, InjRaw(l)>>
                    ELSE Get(after, Key(l, "rhs")) = Stale(l, "rhs")
=============================================================================
