----------------------------- MODULE TraceSolver -----------------------------
(***************************************************************************)
(* Trace validation: an execution recorded from the real GMGPolar object   *)
(* (hook events from setup()/solve() + driver events for the public calls) *)
(* must be a behaviour of Solver.tla.  Each event is bound to the spec     *)
(* action of the statement it was emitted from; the cheap scalars logged   *)
(* with it (sizes of the histories, indices of the factor read, smoother   *)
(* mode, iteration counter, exact IEEE-754 order of norms and tolerances)  *)
(* must agree with the model's code-shaped variables.  Several histories   *)
(* are concatenated; a "Ctor" event starts a new object.                   *)
(*                                                                         *)
(* Acceptance: the invariant NotAccepted (l <= Len(Tr)) is VIOLATED iff    *)
(* some behaviour consumes the whole trace.  All Solver invariants are     *)
(* checked in every state on the way.                                      *)
(***************************************************************************)
EXTENDS Solver, Json, IOUtils

VARIABLES l,        \* next trace line
          pend,     \* scalars of the ResNorm/ReadFactor/Switch events waiting for the ConvCheck that completes the step
          prevCur,  \* limbs of the previous residual norm of this solve
          fmgSeq,   \* FMG start-up events observed since SolveEnter
          c01,      \* the configuration lies in the supported set of C01: the solve must converge with rho < 1
          cyc       \* cycle-function entries still expected for the cycle that is running (pre-order of its call tree)

tvars == <<vars, l, pend, prevCur, fmgSeq, c01, cyc>>

Tr == ndJsonDeserialize(IOEnv.TRACE)
N == Len(Tr)
E == Tr[l]
IsEvent(name) == l <= N /\ Tr[l].e = name
Consume == l' = l + 1

NoPend == [has |-> FALSE, k |-> 0, cur |-> <<0, 0, 0>>, factorRead |-> FALSE, bad |-> FALSE, switched |-> FALSE]
Limbs(d) == <<d.l2, d.l1, d.l0>>
Finite(d) == d.nan = 0 /\ d.neg = 0
\* exact order of non-negative doubles on their 21-bit limbs
DLeq(a, b) == \/ a.l2 < b.l2
              \/ a.l2 = b.l2 /\ a.l1 < b.l1
              \/ a.l2 = b.l2 /\ a.l1 = b.l1 /\ a.l0 <= b.l0
IsOne(d) == d.neg = 0 /\ d.nan = 0 /\ d.l2 = 1047552 /\ d.l1 = 0 /\ d.l0 = 0     \* 0x3FF0000000000000

Quiet == UNCHANGED <<pend, prevCur, fmgSeq, c01, cyc>>

(* ------------------------------ construction ----------------------------- *)
\* "Ctor": a new object; every variable returns to Init with the logged abstract options
TCtor ==
  /\ IsEvent("Ctor") /\ Consume
  /\ pc = "idle"
  /\ opts' = [ext |-> E.ext, fmg |-> (E.fmg = 1), L |-> E.L, take |-> (E.take = 1), caches |-> (E.caches = 1),
              maxIter |-> E.maxIter, absOn |-> (E.absOn = 1), relOn |-> (E.relOn = 1), exact |-> (E.exact = 1),
              misc |-> E.misc, grid |-> E.grid]
  /\ built' = NoLevels /\ fgs' = FALSE /\ resNorms' = <<>> /\ exErrs' = <<>> /\ nIter' = -1 /\ meanRho' = UNSET
  /\ initNorm' = UNDEF /\ curNorm' = UNDEF /\ start' = <<"none">> /\ sid' = 0 /\ pc' = "idle" /\ k' = 0 /\ mh' = <<>>
  /\ memo' = <<>> /\ sh' = FreshSh /\ calls' = 0 /\ stopped' = FALSE /\ justSolved' = FALSE /\ hist' = <<>> /\ tsolve' = {}
  /\ pend' = NoPend /\ prevCur' = <<0, 0, 0>> /\ fmgSeq' = <<>> /\ c01' = (E.c01 = 1) /\ cyc' = <<>>

TraceInit == Init /\ l = 1 /\ pend = NoPend /\ prevCur = <<0, 0, 0>> /\ fmgSeq = <<>> /\ c01 = FALSE /\ cyc = <<>>

BoolOpt == {"fmg", "take", "caches", "absOn", "relOn", "exact"}
TSetOpt ==
  /\ IsEvent("SetOpt") /\ Consume /\ Quiet
  /\ IF E.name \in BoolOpt THEN SetOpt(E.name, E.val = 1)
     ELSE SetOpt(E.name, E.val)
\* re-setting a modelled option to its current value is a no-op of the model
TSetSame ==
  /\ IsEvent("SetOpt") /\ Consume /\ Quiet
  /\ E.name \in OptNames
  /\ opts[E.name] = (IF E.name \in BoolOpt THEN (E.val = 1) ELSE E.val)
  /\ UNCHANGED vars

(* --------------------------------- setup --------------------------------- *)
TSetupBegin == IsEvent("SetupBegin") /\ Consume /\ Quiet /\ pc = "idle" /\ UNCHANGED vars
            /\ E.ext = opts.ext /\ (E.fmg = 1) = opts.fmg /\ (E.take = 1) = opts.take
TSetupLevel == IsEvent("SetupLevel") /\ Consume /\ Quiet /\ UNCHANGED vars
            \* allocation discipline of Level::Level (C20: no unallocated work vector is ever addressed)
            /\ E.sol = E.nr * E.nt /\ E.res = E.nr * E.nt
            /\ E.err = (IF E.d > 0 THEN E.nr * E.nt ELSE 0)
            /\ E.rhs = (IF opts.fmg \/ E.d = 0 \/ (E.d = 1 /\ opts.ext # 0) THEN E.nr * E.nt ELSE 0)
TSetupBuilt ==
  /\ IsEvent("SetupBuilt") /\ Consume /\ Quiet
  /\ SetupBuild
  /\ built'.lv = E.L /\ fgs' = (E.fgs = 1) /\ built'.ext = E.ext /\ built'.fmg = (E.fmg = 1)
TSetupThrew ==
  /\ IsEvent("SetupThrew") /\ Consume /\ Quiet
  /\ SetupReject

(* --------------------------------- solve --------------------------------- *)
TSolveEnter ==
  /\ IsEvent("SolveEnter") /\ Consume
  /\ SolveEnter
  /\ E.normsSz = Len(resNorms) /\ E.errsSz = Len(exErrs) /\ (E.fgs = 1) = fgs
  /\ (E.tZero = 1) = (tsolve' = {sid'})            \* the solve timers start from zero
  /\ fmgSeq' = <<>> /\ UNCHANGED <<pend, prevCur, c01, cyc>>

\* pre-order of the cycle-function entries of one cycle of `kind` started on level d (kind: 0 V, 1 W, 2 F); only the
\* top-level call may be the implicitly extrapolated variant, the recursion uses the plain cycles:
\* V calls V once, W calls W twice, F calls F then V, until the level below is the coarsest (direct solve)
RECURSIVE Calls(_, _, _, _)
Calls(kind, ext, d, L) ==
  <<<<kind, ext, d>>>> \o (IF d + 1 = L - 1 THEN <<>>
                         ELSE CASE kind = 0 -> Calls(0, 0, d + 1, L)
                                [] kind = 1 -> Calls(1, 0, d + 1, L) \o Calls(1, 0, d + 1, L)
                                [] OTHER -> Calls(2, 0, d + 1, L) \o Calls(0, 0, d + 1, L))
TCycleEnter ==
  /\ IsEvent("CycleEnter") /\ Consume /\ UNCHANGED <<vars, pend, prevCur, fmgSeq, c01>>
  /\ cyc # <<>> /\ <<E.kind, E.ext, E.depth>> = Head(cyc)
  /\ cyc' = Tail(cyc)

\* start-up events: collected, judged at SolveBegin
TStartEvent ==
  /\ pc = "begin" /\ Consume /\ UNCHANGED <<vars, pend, prevCur, c01>>
  /\ cyc = <<>>                                   \* the previous start-up cycle has made all its calls
  /\ \/ IsEvent("InitZero") /\ fmgSeq' = Append(fmgSeq, <<"zero">>) /\ cyc' = <<>>
     \/ IsEvent("FMGDirect") /\ fmgSeq' = Append(fmgSeq, <<"direct", E.level>>) /\ cyc' = <<>>
     \/ IsEvent("FMGInterp") /\ fmgSeq' = Append(fmgSeq, <<"interp", E.from, E.to>>) /\ cyc' = <<>>
     \/ IsEvent("FMGCycle") /\ fmgSeq' = Append(fmgSeq, <<"cycle", E.level, E.ext>>)
                            /\ cyc' = Calls(E.kind, E.ext, E.level, built.lv)       \* the configured FMG cycle must be what runs

\* the nested iteration the property describes: direct solve on the coarsest level, then level by level
\* interpolate and improve with `its` cycles (extrapolated cycles only on the finest level)
RECURSIVE FMGIdeal(_, _, _)
FMGIdeal(lvl, its, ext) ==
  IF lvl = 0 THEN <<>>
  ELSE <<<<"interp", lvl, lvl - 1>>>> \o [i \in 1..its |-> <<"cycle", lvl - 1, IF lvl - 1 = 0 /\ ext # 0 THEN 1 ELSE 0>>]
       \o FMGIdeal(lvl - 1, its, ext)
StartSeqIdeal(its) == IF opts.fmg THEN <<<<"direct", built.lv - 1>>>> \o FMGIdeal(built.lv - 1, its, built.ext)
                      ELSE <<<<"zero">>>>
\* number of FMG cycles per level is a solve-relevant option the model does not carry: read it off the trace
ItsOf(seq) == Cardinality({i \in 1..Len(seq) : seq[i][1] = "cycle" /\ seq[i][2] = 0})
StartRefinesFMG == fmgSeq = StartSeqIdeal(ItsOf(fmgSeq))

TSolveBegin ==
  /\ IsEvent("SolveBegin") /\ Consume
  /\ cyc = <<>>
  /\ SolveBegin
  /\ StartRefinesFMG                                   \* C09: the start-up is the nested iteration
  /\ E.normsSz = Len(resNorms') /\ E.errsSz = Len(exErrs') /\ (E.fgs = 1) = fgs'
  /\ (E.fmg = 1) = opts.fmg /\ E.ext = opts.ext /\ E.L = built.lv
  /\ E.maxIter = opts.maxIter /\ (E.absOn = 1) = opts.absOn /\ (E.relOn = 1) = opts.relOn /\ (E.exact = 1) = opts.exact
  /\ (meanRho' = ONE) <=> IsOne(E.rho)
  /\ pend' = NoPend /\ prevCur' = <<0, 0, 0>> /\ UNCHANGED <<fmgSeq, c01, cyc>>

TLoopHead ==
  /\ IsEvent("LoopHead") /\ Consume /\ Quiet
  /\ LoopHead /\ pc' = "err" /\ E.k = k

\* silent: the loop condition fails (no event is emitted outside the loop body)
SLoopExit == pc = "head" /\ k >= opts.maxIter /\ LoopHead /\ UNCHANGED <<l, pend, prevCur, fmgSeq, c01, cyc>>

TExactErr ==
  /\ IsEvent("ExactErr") /\ Consume /\ Quiet
  /\ opts.exact /\ ExactErr
  /\ E.k = k /\ E.errsSz = Len(exErrs')
\* silent: no exact solution set
SNoExact == pc = "err" /\ ~opts.exact /\ ExactErr /\ UNCHANGED <<l, pend, prevCur, fmgSeq, c01, cyc>>

\* the norm step of the model is spread over 2-4 events: ResNorm, [ReadFactor, [Switch]], ConvCheck
TResNormEv ==
  /\ IsEvent("ResNorm") /\ Consume /\ UNCHANGED <<vars, prevCur, fmgSeq, c01, cyc>>
  /\ pc = "norm" /\ ~pend.has
  /\ E.k = k
  /\ E.normsSz = Len(resNorms) + 1              \* push_back happened
  /\ Finite(E.cur)
  /\ pend' = [NoPend EXCEPT !.has = TRUE, !.k = k, !.cur = Limbs(E.cur)]
TReadFactorEv ==
  /\ IsEvent("ReadFactor") /\ Consume /\ UNCHANGED <<vars, prevCur, fmgSeq, c01, cyc>>
  /\ pc = "norm" /\ pend.has /\ ~pend.factorRead /\ k > 0
  \* ReadsOwnSolve: the two entries read are the norms of iterations k and k-1 of THIS solve
  /\ E.i = k /\ E.j = k - 1 /\ E.normsSz = k + 1
  /\ Limbs(E.num) = pend.cur /\ Limbs(E.den) = prevCur
  /\ pend' = [pend EXCEPT !.factorRead = TRUE, !.bad = (E.bad = 1)]
TSwitchEv ==
  /\ IsEvent("Switch") /\ Consume /\ UNCHANGED <<vars, prevCur, fmgSeq, c01, cyc>>
  /\ pc = "norm" /\ pend.factorRead /\ pend.bad /\ ~pend.switched /\ E.k = k
  /\ opts.ext = 3 /\ fgs
  /\ pend' = [pend EXCEPT !.switched = TRUE]
TConvCheck ==
  /\ IsEvent("ConvCheck") /\ Consume /\ UNCHANGED <<fmgSeq, c01, cyc>>
  /\ pc = "norm" /\ pend.has /\ E.k = k
  /\ (k > 0) = pend.factorRead
  /\ Limbs(E.cur) = pend.cur
  /\ (E.absOn = 1) = opts.absOn /\ (E.relOn = 1) = opts.relOn
  /\ Finite(E.rel)
  \* the decision is what the documented stop rule says, evaluated exactly on the logged bit patterns
  /\ (E.res = 1) = ((opts.relOn /\ DLeq(E.rel, E.relTol)) \/ (opts.absOn /\ DLeq(E.cur, E.absTol)))
  /\ (k = 0) => IsOne(E.rel) /\ Limbs(E.init) = pend.cur
  /\ ResNorm(E.res = 1, pend.bad)
  /\ (fgs # fgs') = pend.switched                       \* the mode switches exactly when the code said so
  /\ prevCur' = pend.cur /\ pend' = NoPend
\* silent: both tolerances disabled (ExactErr went straight to the cycle)

TCycleRun ==
  /\ IsEvent("CycleRun") /\ Consume /\ UNCHANGED <<pend, prevCur, fmgSeq, c01>>
  /\ cyc = <<>> /\ cyc' = Calls(E.kind, E.ext, 0, built.lv)
  /\ RunCycle
  /\ E.k = k /\ (E.fgs = 1) = fgs /\ E.ext = (IF opts.ext # 0 THEN 1 ELSE 0)
TCycleDone == IsEvent("CycleDone") /\ Consume /\ Quiet /\ UNCHANGED vars /\ pc = "head" /\ E.k = k /\ cyc = <<>>

TSolveEnd ==
  /\ IsEvent("SolveEnd") /\ Consume /\ Quiet
  /\ ComputeStats
  /\ E.nIter = nIter /\ E.normsSz = Len(resNorms) /\ E.errsSz = Len(exErrs) /\ (E.fgs = 1) = fgs
  /\ (meanRho' = ONE) <=> IsOne(E.rho)
  /\ E.rho.nan = 0 \/ meanRho'[1] = "ratio"
  \* C01, first half: inside the supported set the iteration stops on the tolerance before the budget is used up,
  \* with a mean reduction factor strictly below one (exact comparison of the bit patterns with 1.0)
  /\ c01 => /\ stopped
            /\ nIter < opts.maxIter
            /\ (nIter > 0 => (Finite(E.rho) /\ DLeq(E.rho, [l2 |-> 1047551, l1 |-> 2097151, l0 |-> 2097151])))

\* solve() threw: before doing anything (missing right-hand sides / no setup), or part-way on an out-of-date hierarchy
TSolveThrew ==
  /\ IsEvent("SolveThrew") /\ Consume
  /\ \/ pc = "idle" /\ SolveReject /\ Quiet
     \/ pc # "idle" /\ SolveAbort /\ pend' = NoPend /\ UNCHANGED <<prevCur, fmgSeq, c01>> /\ cyc' = <<>>

(* --------------------------- driver observations ------------------------- *)
\* public getters after a solve: defined values (C20)
TGet ==
  /\ IsEvent("Get") /\ Consume /\ Quiet /\ UNCHANGED vars
  /\ pc = "idle" /\ justSolved
  /\ E.nIter = nIter
  /\ (E.hasErr = 1) = (GetErr # NoErr)
\* the options as the getters report them after setup() / solve(): neither call changes what the user set
TOpts ==
  /\ IsEvent("Opts") /\ Consume /\ Quiet /\ UNCHANGED vars
  /\ pc = "idle"
  /\ E.ext = opts.ext /\ (E.fmg = 1) = opts.fmg /\ E.L = opts.L /\ (E.take = 1) = opts.take /\ (E.caches = 1) = opts.caches
  /\ E.maxIter = opts.maxIter /\ (E.absOn = 1) = opts.absOn /\ (E.relOn = 1) = opts.relOn /\ E.grid = opts.grid
\* comparison with a freshly constructed object given the same options, made by the driver (bitwise, 1 thread)
TFresh ==
  /\ IsEvent("FreshCompare") /\ Consume /\ Quiet /\ UNCHANGED vars
  /\ InC13Domain => (E.sameSolution = 1 /\ E.sameIter = 1 /\ E.sameRho = 1 /\ E.sameErr = 1)
\* residual recomputed independently from solution() by the driver: a reported stop is true (C01)
TIndep ==
  /\ IsEvent("IndepResidual") /\ Consume /\ Quiet /\ UNCHANGED vars
  /\ (stopped /\ E.valid = 1) => (Finite(E.abs) /\ ((opts.absOn /\ DLeq(E.abs, E.absThr)) \/ (opts.relOn /\ DLeq(E.abs, E.relThrAbs))))

TraceNext ==
  \/ TCtor \/ TSetOpt \/ TSetSame \/ TSetupBegin \/ TSetupLevel \/ TSetupBuilt \/ TSetupThrew
  \/ TSolveEnter \/ TStartEvent \/ TSolveBegin \/ TLoopHead \/ SLoopExit \/ TExactErr \/ SNoExact
  \/ TResNormEv \/ TReadFactorEv \/ TSwitchEv \/ TConvCheck \/ TCycleRun \/ TCycleDone \/ TSolveEnd
  \/ TGet \/ TOpts \/ TFresh \/ TIndep \/ TSolveThrew \/ TCycleEnter

TraceSpec == TraceInit /\ [][TraceNext]_tvars

TraceMisc == 0..1500      \* cfg files cannot spell a range
NotAccepted == l <= N
\* progress register for diagnosing a rejection (needs -workers 1): prints the highest line index reached
ASSUME N > 0      \* a missing or empty recording must never count as an accepted one
ASSUME TLCSet(1, 0)
Progress == IF TLCGet(1) < l THEN TLCSet(1, l) /\ PrintT(<<"@@L", l>>) ELSE TRUE
=============================================================================
