------------------------------ MODULE TraceOps -------------------------------
(***************************************************************************)
(* Trace validation of the OPERATOR level of recorded executions against   *)
(* the programs of CycleOps.tla.  The trace (IOEnv.TRACE, ndjson) holds the *)
(* life-cycle markers of setup()/solve() and one "Op" event per operator    *)
(* application with the identities of its operand vectors.                 *)
(*                                                                         *)
(* Between two markers the recorded instructions must be exactly the       *)
(* program the specification prescribes there:                             *)
(*   SetupBegin .. SetupBuilt   PSetup(L, ext, fmg)                        *)
(*   SolveEnter .. InitZero     PInitZero                                  *)
(*   SolveEnter .. FMGDirect    PFMGDirect;  .. FMGInterp  PFMGInterp      *)
(*   FMGCycle ..                one cycle on that level (PTop)             *)
(*   .. ResNorm                 PResNorm(ext)                              *)
(*   CycleRun .. CycleDone      one cycle on level 0 (PTop)                *)
(* and the nested iteration visits the levels L-1 .. 0 with fmgIts cycles   *)
(* of kind fmgKind on each (FMGShape).  Every instruction is compared as   *)
(* soon as it is read (early rejection point), the lengths at the marker.  *)
(* Acceptance as in TraceSolver.tla: NotAccepted is violated iff the whole *)
(* trace was consumed.                                                     *)
(***************************************************************************)
EXTENDS CycleOps, IOUtils, SequencesExt

VARIABLES l, seen, exp, st, fm
tvars == <<l, seen, exp, st, fm, cfg, phase, result>>

Tr == ndJsonDeserialize(IOEnv.TRACE)
N == Len(Tr)
IsEvent(name) == l <= N /\ Tr[l].e = name
KindName(k) == CASE k = 0 -> "V" [] k = 1 -> "W" [] k = 2 -> "F"
Strip(prog) == SelectSeq(prog, LAMBDA o : ~Ghost(o))
NoSt == [L |-> 0, ext |-> FALSE, fmg |-> FALSE, nu1 |-> 0, nu2 |-> 0, its |-> 0, fkind |-> "V", kind |-> "V", xsFmg |-> FALSE, insolve |-> FALSE, sext |-> FALSE, sfmg |-> FALSE]
NoFm == [lev |-> -1, it |-> 0]
CC == [L |-> st.L, nu1 |-> st.nu1, nu2 |-> st.nu2]

TraceInit == /\ l = 1 /\ seen = <<>> /\ exp = <<>> /\ st = NoSt /\ fm = NoFm
             /\ cfg = [none |-> TRUE] /\ phase = "trace" /\ result = [none |-> TRUE]
Keep == UNCHANGED <<cfg, phase, result>>
Step == l' = l + 1 /\ Keep
\* a marker: everything expected so far, followed by the instructions that precede the marker, has been seen - no more, no less
Sync(pre) == seen = exp \o pre

TCtor == IsEvent("Ctor") /\ Step /\ seen' = <<>> /\ exp' = <<>> /\ st' = NoSt /\ fm' = NoFm
TSetupBegin == IsEvent("SetupBegin") /\ Step /\ Sync(<<>>) /\ seen' = <<>> /\ exp' = <<>> /\ fm' = NoFm
               /\ st' = [st EXCEPT !.sext = Tr[l].ext # 0, !.sfmg = Tr[l].fmg # 0]
TSetupBuilt == IsEvent("SetupBuilt") /\ Step /\ Sync(Strip(PSetup(Tr[l].L, st.sext, st.sfmg)))
               /\ seen' = <<>> /\ exp' = <<>> /\ st' = [st EXCEPT !.L = Tr[l].L] /\ UNCHANGED fm
\* an exception ends the call: what was executed so far is a prefix of a program; a rejected setup() leaves the object as it was
TSetupThrew == IsEvent("SetupThrew") /\ Step /\ (\E LL \in 2..16 : IsPrefix(seen, Strip(PSetup(LL, st.sext, st.sfmg))))
               /\ seen' = <<>> /\ exp' = <<>> /\ UNCHANGED <<st, fm>>
TSolveThrew == IsEvent("SolveThrew") /\ Step /\ seen' = <<>> /\ exp' = <<>> /\ st' = [st EXCEPT !.insolve = FALSE] /\ fm' = NoFm

TSolveEnter == /\ IsEvent("SolveEnter") /\ Step /\ Sync(<<>>) /\ seen' = <<>> /\ exp' = <<>> /\ fm' = NoFm
               /\ st' = [st EXCEPT !.nu1 = Tr[l].nu1, !.nu2 = Tr[l].nu2, !.its = Tr[l].fmgIts, !.fkind = KindName(Tr[l].fmgKind),
                                    !.kind = KindName(Tr[l].kind), !.ext = Tr[l].extMode # 0, !.fmg = Tr[l].fmg # 0,
                                    !.xsFmg = (Tr[l].fgs = 0 /\ Tr[l].extMode # 3), !.insolve = TRUE]
TInitZero == IsEvent("InitZero") /\ Step /\ ~st.fmg /\ Sync(PInitZero) /\ seen' = <<>> /\ exp' = <<>> /\ UNCHANGED <<st, fm>>
TFMGDirect == /\ IsEvent("FMGDirect") /\ Step /\ st.fmg /\ Tr[l].level = st.L - 1 /\ Sync(PFMGDirect(CC))
              /\ seen' = <<>> /\ exp' = <<>> /\ fm' = [lev |-> st.L - 1, it |-> st.its] /\ UNCHANGED st
TFMGInterp == /\ IsEvent("FMGInterp") /\ Step /\ Tr[l].from = fm.lev /\ Tr[l].to = fm.lev - 1 /\ fm.it = st.its /\ fm.lev >= 1
              /\ Sync(PFMGInterp(fm.lev)) /\ seen' = <<>> /\ exp' = <<>> /\ fm' = [lev |-> fm.lev - 1, it |-> 0] /\ UNCHANGED st
TFMGCycle == /\ IsEvent("FMGCycle") /\ Step /\ Tr[l].level = fm.lev /\ Tr[l].it = fm.it /\ fm.it < st.its
             /\ KindName(Tr[l].kind) = st.fkind /\ (Tr[l].ext # 0) = (fm.lev = 0 /\ st.ext)
             /\ Sync(<<>>) /\ seen' = <<>>
             /\ exp' = Strip(PTop(CC, st.fkind, fm.lev, st.ext, st.xsFmg, fm.it + 1))
             /\ fm' = [fm EXCEPT !.it = fm.it + 1] /\ UNCHANGED st
\* the nested iteration has reached the finest level with all its cycles (FMGShape)
TSolveBegin == /\ IsEvent("SolveBegin") /\ Step /\ Sync(<<>>) /\ (st.fmg => fm.lev = 0 /\ fm.it = st.its)
               /\ Tr[l].L = st.L /\ seen' = <<>> /\ exp' = <<>> /\ UNCHANGED <<st, fm>>
TResNorm == IsEvent("ResNorm") /\ Step /\ Sync(PResNorm(st.ext)) /\ seen' = <<>> /\ exp' = <<>> /\ UNCHANGED <<st, fm>>
TCycleRun == /\ IsEvent("CycleRun") /\ Step /\ Sync(<<>>) /\ KindName(Tr[l].kind) = st.kind /\ (Tr[l].ext # 0) = st.ext
             /\ seen' = <<>> /\ exp' = Strip(PTop(CC, st.kind, 0, st.ext, Tr[l].fgs = 0, 1)) /\ UNCHANGED <<st, fm>>
TCycleDone == IsEvent("CycleDone") /\ Step /\ Sync(<<>>) /\ Len(exp) > 0 /\ seen' = <<>> /\ exp' = <<>> /\ UNCHANGED <<st, fm>>
TSolveEnd == IsEvent("SolveEnd") /\ Step /\ Sync(<<>>) /\ seen' = <<>> /\ exp' = <<>> /\ st' = [st EXCEPT !.insolve = FALSE] /\ UNCHANGED fm
\* one instruction: compared with the expected one at once where the program is already known
TOp == /\ IsEvent("Op") /\ Step
       /\ LET o == <<Tr[l].op, Tr[l].l, Tr[l].a, Tr[l].b, Tr[l].c>>
              n == Len(seen) + 1
          IN /\ (n <= Len(exp) => exp[n] = o)
             /\ n <= Len(exp) + 64
             /\ seen' = Append(seen, o)
       /\ UNCHANGED <<exp, st, fm>>

TraceNext == TCtor \/ TSetupBegin \/ TSetupBuilt \/ TSetupThrew \/ TSolveThrew \/ TSolveEnter \/ TInitZero \/ TFMGDirect \/ TFMGInterp
             \/ TFMGCycle \/ TSolveBegin \/ TResNorm \/ TCycleRun \/ TCycleDone \/ TSolveEnd \/ TOp
TraceSpec == TraceInit /\ [][TraceNext]_tvars

NotAccepted == l <= N
ASSUME N > 0      \* a missing or empty recording must never count as an accepted one
ASSUME TLCSet(1, 0)
Progress == IF TLCGet(1) < l THEN TLCSet(1, l) /\ PrintT(<<"@@L", l>>) ELSE TRUE
\* instructions never pile up beyond what any marker could explain
Bounded == Len(seen) <= Len(exp) + 64
=============================================================================
