---------------------------- MODULE TridiagAlgMC ----------------------------
(* entry domains for the configurations of TridiagAlg (negative numbers cannot be written in a .cfg) *)
EXTENDS TridiagAlg
QDiag == {2, 3, 5}
QSub == {-2, -1, 0, 1}
QCorner == {-2, 1, 2}
\* small family for the quick tier / table generation
SDiag == {3, 5}
SSub == {-2, 0, 1}
SCorner == {-2, 1}
TDiag == {2, 3, 4, 5}
TSub == {-2, -1, 0, 1, 2}
TCorner == {-2, -1, 1, 2}
=============================================================================
