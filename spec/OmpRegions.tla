----------------------------- MODULE OmpRegions -----------------------------
(***************************************************************************)
(* Race freedom of OBSERVED OpenMP region tables (property C11).           *)
(* A table is what the recorder saw of one parallel region instance of the *)
(* real code: every executed work-sharing-loop iteration with its barrier  *)
(* epoch (number of barriers the team passed before it) and its read and   *)
(* write footprint in memory cells.  Footprints and epochs are functions   *)
(* of the iteration, not of the schedule.  OpenMP lets ANY thread run any  *)
(* iteration of a loop (no schedule clause), and threads are only ordered  *)
(* by barriers, so two different iterations can be simultaneously active   *)
(* in some schedule iff they lie in the same epoch (see OmpModel.tla for   *)
(* the interleaving semantics this closed form is checked against).        *)
(* One state per table; the invariant RaceFree must hold in each.          *)
(***************************************************************************)
EXTENDS Integers, Sequences, FiniteSets, TLC, Json, IOUtils

Regs == ndJsonDeserialize(IOEnv.REGIONS)
VARIABLE k
vars == <<k>>

SetOf(s) == {s[i] : i \in 1..Len(s)}
W(t) == SetOf(t.w)
R(t) == SetOf(t.r)
Conflict(a, b) == (W(a) \cap (R(b) \cup W(b)) # {}) \/ (W(b) \cap R(a) # {})
EpochDisjoint(reg) == \A i \in 1..Len(reg.its), j \in 1..Len(reg.its) :
                        (i < j /\ reg.its[i].ep = reg.its[j].ep) => ~Conflict(reg.its[i], reg.its[j])
\* every location is written in at most one epoch by ... (C12): the sequence of writers of a location is fixed by the
\* epoch order, so results do not depend on timing: two writers of one cell never share an epoch
WriteOrderDeterministic(reg) == \A i \in 1..Len(reg.its), j \in 1..Len(reg.its) :
                        (i < j /\ reg.its[i].ep = reg.its[j].ep) => W(reg.its[i]) \cap W(reg.its[j]) = {}

Init == k = 1
Next == k < Len(Regs) /\ k' = k + 1
Spec == Init /\ [][Next]_vars
RaceFree == EpochDisjoint(Regs[k])
Deterministic == WriteOrderDeterministic(Regs[k])
=============================================================================
