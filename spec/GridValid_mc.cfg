SPECIFICATION Spec
CONSTANTS
  Full = 8
  RadVals <- RadValsMC
  EmitTables = FALSE
INVARIANTS AcceptIsValid
