----------------------------- MODULE SparseLUAlg -----------------------------
(***************************************************************************)
(* Transcription of SparseLUSolver<T>::factorizeWithHashing and            *)
(* solveInPlace (include/LinearAlgebra/sparseLUSolver.h) over exact        *)
(* fractions.  Rows are MAPS column -> value exactly as the C++ uses       *)
(* std::unordered_map: a stored entry may be an explicit zero, fill-in     *)
(* creates entries, nothing depends on the order in which a row is stored  *)
(* or iterated.  One action per eliminated row, then one action per        *)
(* right-hand side (the solver is const: any number of solves).            *)
(* Property C16: if no pivot vanishes, every solve returns x with A x = b. *)
(***************************************************************************)
EXTENDS Integers, Sequences, TLC, Json, Frac

CONSTANTS Dims, DiagVals, OffVals,   \* OffVals: integer values of stored off-diagonal entries (0 = stored zero)
          AllowAbsent,               \* BOOLEAN: off-diagonal positions may be absent from the pattern
          MaxSolves, EmitTables

VARIABLES n, A,        \* instance: A[i][j] = [p |-> stored?, v |-> integer]
          L, U,        \* L_map, U_map: [i][j] = [p, v (fraction)]
          row,         \* next row to eliminate (n+1 = factorised)
          x, nsolves, rhs, bad, xs

vars == <<n, A, L, U, row, x, nsolves, rhs, bad, xs>>

Absent == [p |-> FALSE, v |-> 0]
Stored(v) == [p |-> TRUE, v |-> v]
FAbsent == [p |-> FALSE, v |-> FZero]
FStored(f) == [p |-> TRUE, v |-> f]

OffCells == {Stored(v) : v \in OffVals} \cup (IF AllowAbsent THEN {Absent} ELSE {})
\* the diagonal may be structurally absent, too: the pivot can arise from fill-in alone (e.g. [2 1; 3 .])
DiagCells == {Stored(v) : v \in DiagVals} \cup (IF AllowAbsent THEN {Absent} ELSE {})

\* right-hand sides: a dense one and a sparse one (exact zeros in front of a single non-zero entry)
Rhs(k, m) == [i \in 1..m |-> IF k = 1 THEN FInt(i) ELSE FInt(IF i = m THEN 3 ELSE 0)]

Init ==
  /\ n \in Dims
  /\ \E dg \in [1..n -> DiagCells], off \in [{p \in (1..n) \X (1..n) : p[1] # p[2]} -> OffCells] :
        A = [i \in 1..n |-> [j \in 1..n |-> IF i = j THEN dg[i] ELSE off[<<i, j>>]]]
  /\ L = [i \in 1..n |-> [j \in 1..n |-> FAbsent]]
  /\ U = [i \in 1..n |-> [j \in 1..n |-> FAbsent]]
  /\ row = 1 /\ x = <<>> /\ nsolves = 0 /\ rhs = 0 /\ bad = FALSE /\ xs = <<>>

\* value of a map cell read with operator[] (inserts 0 when missing)
Val(c) == IF c.p THEN c.v ELSE FZero

\* row_values after processing columns j..i-1 of row i
RECURSIVE Elim(_, _, _)
Elim(rv, i, j) ==
  IF j >= i THEN [rv |-> rv, bad |-> FALSE]
  ELSE IF ~rv[j].p THEN Elim(rv, i, j + 1)           \* it == row_values.end(): continue
  ELSE IF FIsZero(Val(U[j][j])) THEN [rv |-> rv, bad |-> TRUE]   \* division by U_map[j][j] = 0
  ELSE LET l == FDiv(rv[j].v, U[j][j].v)
           rv2 == [k \in 1..n |->
                     IF k = j THEN FStored(l)
                     ELSE IF k > j /\ U[j][k].p THEN FStored(FSub(Val(rv[k]), FMul(l, U[j][k].v)))   \* fill-in
                     ELSE rv[k]]
       IN Elim(rv2, i, j + 1)

EliminateRow ==
  /\ row <= n /\ ~bad
  /\ LET rv0 == [k \in 1..n |-> IF A[row][k].p THEN FStored(FInt(A[row][k].v)) ELSE FAbsent]
         e == Elim(rv0, row, 1)
     IN /\ bad' = e.bad
        /\ L' = [L EXCEPT ![row] = [k \in 1..n |-> IF k < row THEN e.rv[k] ELSE FAbsent]]
        /\ U' = [U EXCEPT ![row] = [k \in 1..n |-> IF k >= row THEN e.rv[k] ELSE FAbsent]]
  /\ row' = row + 1
  /\ UNCHANGED <<n, A, x, nsolves, rhs, xs>>

RECURSIVE FwdL(_, _)
FwdL(b, i) ==
  IF i > n THEN b
  ELSE LET RECURSIVE acc(_, _)
           acc(j, s) == IF j >= i THEN s ELSE acc(j + 1, IF L[i][j].p THEN FSub(s, FMul(L[i][j].v, b[j])) ELSE s)
       IN FwdL([b EXCEPT ![i] = acc(1, b[i])], i + 1)

RECURSIVE BwdU(_, _)
BwdU(b, i) ==
  IF i < 1 THEN b
  ELSE LET RECURSIVE acc(_, _)
           acc(k, s) == IF k > n THEN s ELSE acc(k + 1, IF U[i][k].p THEN FSub(s, FMul(U[i][k].v, b[k])) ELSE s)
       IN BwdU([b EXCEPT ![i] = FDiv(acc(i + 1, b[i]), U[i][i].v)], i - 1)

Solve(k) ==
  /\ row = n + 1 /\ ~bad /\ nsolves < MaxSolves
  /\ IF \E i \in 1..n : FIsZero(Val(U[i][i]))     \* "Zero diagonal encountered in U": exit
     THEN bad' = TRUE /\ UNCHANGED <<x, xs>>
     ELSE /\ bad' = FALSE
          /\ x' = BwdU(FwdL(Rhs(k, n), 1), n)
          /\ xs' = Append(xs, [k |-> k, x |-> x'])
  /\ rhs' = k /\ nsolves' = nsolves + 1
  /\ UNCHANGED <<n, A, L, U, row>>

Next == EliminateRow \/ \E k \in 1..2 : Solve(k)
Spec == Init /\ [][Next]_vars

RECURSIVE RowDot(_, _, _)
RowDot(i, v, j) == IF j > n THEN FZero ELSE FAdd(FMul(FInt(IF A[i][j].p THEN A[i][j].v ELSE 0), v[j]), RowDot(i, v, j + 1))

AlgSolves == (nsolves > 0 /\ ~bad) => \A i \in 1..n : RowDot(i, x, 1) = Rhs(rhs, n)[i]
\* L is strictly lower, U upper triangular: the split used by the two substitutions
Triangular == \A i \in 1..n, j \in 1..n : (L[i][j].p => j < i) /\ (U[i][j].p => j >= i)

Terminal == bad \/ nsolves = MaxSolves
Table == [n |-> n, A |-> A, bad |-> bad, xs |-> xs]
Emit == IF EmitTables /\ Terminal THEN PrintT("@@CASE " \o ToJson(Table)) ELSE TRUE
=============================================================================
