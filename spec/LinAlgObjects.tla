--------------------------- MODULE LinAlgObjects ---------------------------
(***************************************************************************)
(* Value semantics of the linear-algebra objects of GMGPolar               *)
(* (include/LinearAlgebra/*.h) as a state machine over operation histories.*)
(*                                                                         *)
(* Two layers, advanced in lock step by every action:                      *)
(*   abs[o]  - the IDEAL abstract value of object o: what a reader of the  *)
(*             public API is entitled to see (shape, content, flags).      *)
(*   conc[o] - the CODE-SHAPED concrete state: the members the C++ class   *)
(*             stores, updated member by member exactly as the special     *)
(*             member functions are written (so a member that is not       *)
(*             transferred stays stale here too).                          *)
(* Property C15:  Proj(conc[o]) = abs[o] in every reachable state, no      *)
(* exception out of a copy, no write beyond an allocation.                 *)
(*                                                                         *)
(* Content is abstract: a matrix/vector is <<shape s, variant v>>; the     *)
(* replay driver maps it to concrete numbers.  FIXED selects which known   *)
(* defects the code-shaped layer has repaired (it describes the tree).     *)
(***************************************************************************)
EXTENDS Naturals, Sequences, FiniteSets, TLC, Json

CONSTANTS Obj,       \* object slots, e.g. {1,2}
          Class,     \* "Vector" | "Diag" | "COO" | "CSR" | "LU" | "Tridiag"
          Shapes,    \* subset of 1..4
          Variants,  \* value variants of one shape, e.g. {1,2}
          FIXED,     \* SUBSET {"F1","F14","F15"}
          GenCases,  \* TRUE: keep the history and print one test case per edge
          MaxHist

VARIABLES abs, conc, threw, oob, hist, last, prev

vars == <<abs, conc, threw, oob, hist, last, prev>>

Rows(s) == IF s <= 2 THEN 2 ELSE 3
Nnz(s)  == CASE s = 1 -> 3 [] s = 2 -> 4 [] s = 3 -> 4 [] s = 4 -> 5
Cols(s) == IF Class \in {"COO", "CSR"} THEN Rows(s) + (s % 2) ELSE Rows(s)
UsesNnz == Class \in {"COO", "CSR"}
Max0(x) == IF x > 0 THEN x ELSE 0

NoArr == [k |-> "none", s |-> 0, v |-> 0, c |-> FALSE]
A(s, v) == [k |-> "A", s |-> s, v |-> v, c |-> FALSE]

(* ------------------------------ ideal layer ------------------------------ *)
AbsEmpty == [s |-> 0, v |-> 0, cyc |-> TRUE, sym |-> FALSE]
AbsOf(s, v) == [s |-> s, v |-> v, cyc |-> TRUE, sym |-> FALSE]

(* ---------------------------- concrete layer ----------------------------- *)
\* dim/cols/nnz: size members; capV/capR: lengths of the owned arrays (values / row starts or
\* sub-diagonal); null: arrays are nullptr; arr: what the arrays hold; cor/gam: whose corner / gamma.
ConcEmpty == [dim |-> 0, cols |-> 0, nnz |-> 0, capV |-> 0, capR |-> 0, null |-> TRUE, arr |-> NoArr,
              cyc |-> TRUE, sym |-> FALSE, fact |-> FALSE, gam |-> <<0, 0>>, cor |-> <<0, 0>>]

ConcOf(s, v) ==
  [dim |-> Rows(s), cols |-> Cols(s), nnz |-> IF UsesNnz THEN Nnz(s) ELSE 0,
   capV |-> IF UsesNnz THEN Nnz(s) ELSE Rows(s),
   capR |-> CASE Class = "CSR" -> Rows(s) + 1 [] Class = "Tridiag" -> Rows(s) - 1 [] OTHER -> 0,
   null |-> FALSE,
   arr |-> IF Class = "LU" THEN [k |-> "LU", s |-> s, v |-> v, c |-> FALSE] ELSE A(s, v),
   cyc |-> TRUE, sym |-> FALSE, fact |-> (Class = "LU"), gam |-> <<0, 0>>,
   cor |-> IF Class = "Tridiag" THEN <<s, v>> ELSE <<0, 0>>]

\* shapes are compared modulo the classes that only know a dimension
ShapeNorm(s) == IF UsesNnz \/ s = 0 THEN s ELSE (IF s <= 2 THEN 1 ELSE 3)

\* the shape a concrete record claims to have (0 = empty)
ShapeOf(c) ==
  IF c.dim = 0 THEN 0
  ELSE IF UsesNnz
       THEN IF \E s \in 1..4 : Rows(s) = c.dim /\ Nnz(s) = c.nnz /\ Cols(s) = c.cols
            THEN CHOOSE s \in 1..4 : Rows(s) = c.dim /\ Nnz(s) = c.nnz /\ Cols(s) = c.cols ELSE 99
       ELSE IF c.dim = 2 THEN 1 ELSE 3

\* Projection of the concrete state onto the abstract value; v = 99 means "junk": the object would
\* compute with arrays that are not what its flags say (e.g. re-factorising factorised arrays).
Proj(c) ==
  LET s == ShapeOf(c) IN
  IF s = 0 THEN [s |-> 0, v |-> 0, cyc |-> c.cyc, sym |-> c.sym]
  ELSE LET good ==
         /\ s # 99
         /\ ShapeNorm(c.arr.s) = s
         /\ CASE Class = "Tridiag" ->
                   /\ c.cor = <<c.arr.s, c.arr.v>>
                   /\ \/ ~c.fact /\ c.arr.k = "A"
                      \/ c.fact /\ c.arr.k = "LDL" /\ c.arr.c = c.cyc /\ (c.cyc => c.gam = <<c.arr.s, c.arr.v>>)
              [] Class = "LU" -> c.fact /\ c.arr.k = "LU"
              [] OTHER -> c.arr.k = "A"
       IN [s |-> s, v |-> IF good THEN c.arr.v ELSE 99, cyc |-> c.cyc, sym |-> c.sym]

(* ------------------------ special member functions ----------------------- *)
\* Each returns [d |-> new destination, s |-> new source, threw |-> BOOLEAN, oob |-> BOOLEAN]
F1  == "F1" \in FIXED
F14 == "F14" \in FIXED
F15 == "F15" \in FIXED

\* does allocating the arrays for a copy of a source of dimension n throw?  (make_unique<T[]>(n - 1))
AllocThrows(n) == Class = "Tridiag" /\ n = 0 /\ ~F14

CapR(n) == CASE Class = "CSR" -> n + 1 [] Class = "Tridiag" -> Max0(n - 1) [] OTHER -> 0

\* the CSR copies read rows_+1 row starts from the source, whose array is nullptr when the source was
\* default constructed or moved from (F15); the repaired code skips the copy for a null source
RowElems(s) == IF Class = "CSR" /\ F15 /\ s.null THEN 0 ELSE CapR(s.dim)
SrcReadOob(s) == Class = "CSR" /\ RowElems(s) > s.capR

CopyCtor(s) ==
  IF AllocThrows(s.dim) THEN [d |-> ConcEmpty, s |-> s, threw |-> TRUE, oob |-> FALSE]
  ELSE [d |-> [dim |-> s.dim, cols |-> s.cols, nnz |-> s.nnz,
               capV |-> IF UsesNnz THEN s.nnz ELSE s.dim, capR |-> CapR(s.dim), null |-> FALSE,
               arr |-> s.arr, cyc |-> s.cyc, sym |-> s.sym,
               fact |-> IF Class = "Tridiag" /\ ~F1 THEN FALSE ELSE s.fact,
               gam |-> IF Class = "Tridiag" /\ ~F1 THEN <<0, 0>> ELSE s.gam,
               cor |-> s.cor],
        s |-> s, threw |-> FALSE, oob |-> SrcReadOob(s)]

\* copy assignment: reallocate only when the class's own size test says so, then copy element-wise
Realloc(d, s) ==
  CASE Class = "COO" -> d.nnz # s.nnz
    [] Class = "CSR" -> d.nnz # s.nnz \/ d.dim # s.dim \/ (F15 /\ d.null)
    [] OTHER -> d.dim # s.dim

CopyAssign(d, s) ==
  LET re   == Class # "LU" /\ Realloc(d, s)
      capV == IF Class = "LU" THEN 0 ELSE IF re THEN (IF UsesNnz THEN s.nnz ELSE s.dim) ELSE d.capV
      capR == IF Class = "LU" THEN 0 ELSE IF re THEN CapR(s.dim) ELSE d.capR
      need == IF UsesNnz THEN s.nnz ELSE s.dim
  IN IF re /\ AllocThrows(s.dim)
     THEN \* matrix_dimension_ and the main diagonal are already replaced when the second allocation throws
          [d |-> [d EXCEPT !.dim = 0, !.capV = 0, !.arr = NoArr], s |-> s, threw |-> TRUE, oob |-> FALSE]
     ELSE [d |-> [dim |-> s.dim, cols |-> s.cols, nnz |-> s.nnz, capV |-> capV, capR |-> capR,
                  null |-> IF re THEN FALSE ELSE d.null,
                  arr |-> s.arr, cyc |-> s.cyc, sym |-> s.sym,
                  fact |-> IF Class = "Tridiag" /\ ~F1 THEN d.fact ELSE s.fact,
                  gam |-> IF Class = "Tridiag" /\ ~F1 THEN d.gam ELSE s.gam,
                  cor |-> s.cor],
           s |-> s, threw |-> FALSE,
           oob |-> Class # "LU" /\ (need > capV \/ RowElems(s) > capR \/ SrcReadOob(s))]

MovedFrom(s) ==
  [s EXCEPT !.dim = 0, !.cols = 0, !.nnz = 0, !.capV = 0, !.capR = 0, !.null = TRUE, !.arr = NoArr,
            !.cyc = TRUE, !.sym = FALSE, !.cor = <<0, 0>>,
            !.fact = IF Class = "Tridiag" /\ ~F1 THEN s.fact ELSE FALSE,
            !.gam = IF Class = "Tridiag" /\ ~F1 THEN s.gam ELSE <<0, 0>>]

MoveCtor(s) ==
  [d |-> [s EXCEPT !.fact = IF Class = "Tridiag" /\ ~F1 THEN FALSE ELSE s.fact,
                   !.gam = IF Class = "Tridiag" /\ ~F1 THEN <<0, 0>> ELSE s.gam],
   s |-> MovedFrom(s), threw |-> FALSE, oob |-> FALSE]

MoveAssign(d, s) ==
  [d |-> [s EXCEPT !.fact = IF Class = "Tridiag" /\ ~F1 THEN d.fact ELSE s.fact,
                   !.gam = IF Class = "Tridiag" /\ ~F1 THEN d.gam ELSE s.gam],
   s |-> MovedFrom(s), threw |-> FALSE, oob |-> FALSE]

(* -------------------------------- actions -------------------------------- *)
Record(act, d, s, x, y) ==
  /\ last' = [a |-> act, d |-> d, s |-> s, x |-> x, y |-> y]
  /\ prev' = IF GenCases THEN conc ELSE prev
  /\ hist' = IF GenCases
             THEN Append(hist, [a |-> act, d |-> d, s |-> s, x |-> x, y |-> y,
                                abs |-> [o \in Obj |-> abs'[o]],
                                fact |-> [o \in Obj |-> conc'[o].fact],
                                threw |-> threw'])
             ELSE hist

Quiet == threw' = FALSE /\ oob' = oob

DefaultConstruct(o) ==
  /\ abs' = [abs EXCEPT ![o] = AbsEmpty]
  /\ conc' = [conc EXCEPT ![o] = ConcEmpty]
  /\ Quiet /\ Record("DC", o, 0, 0, 0)

Construct(o, s, v) ==
  /\ abs' = [abs EXCEPT ![o] = AbsOf(ShapeNorm(s), v)]
  /\ conc' = [conc EXCEPT ![o] = ConcOf(s, v)]
  /\ Quiet /\ Record("CT", o, 0, s, v)

\* overwrite all entries through the element accessors with another variant of the same shape.
\* The tridiagonal solver has no way to announce new entries once it has factorised, so this is only
\* part of the supported use before the first solve.
SetEntries(o, v) ==
  /\ abs[o].s # 0 /\ Class # "LU"
  /\ ~conc[o].fact
  /\ abs[o].v # v
  /\ abs' = [abs EXCEPT ![o].v = v]
  /\ conc' = [conc EXCEPT ![o].arr = A(conc[o].arr.s, v),
                          ![o].cor = IF Class = "Tridiag" THEN <<conc[o].arr.s, v>> ELSE <<0, 0>>]
  /\ Quiet /\ Record("SE", o, 0, v, 0)

SetCyclic(o, b) ==
  /\ Class = "Tridiag" /\ ~conc[o].fact /\ abs[o].cyc # b
  /\ abs' = [abs EXCEPT ![o].cyc = b]
  /\ conc' = [conc EXCEPT ![o].cyc = b]
  /\ Quiet /\ Record("CY", o, 0, IF b THEN 1 ELSE 0, 0)

SetSym(o, b) ==
  /\ Class = "COO" /\ abs[o].sym # b
  /\ abs' = [abs EXCEPT ![o].sym = b]
  /\ conc' = [conc EXCEPT ![o].sym = b]
  /\ Quiet /\ Record("SY", o, 0, IF b THEN 1 ELSE 0, 0)

\* solveInPlace.  The tridiagonal solver factorises its own arrays on the first call.
Solve(o) ==
  /\ Class \in {"Tridiag", "Diag", "LU"} /\ abs[o].s # 0
  /\ abs' = abs
  /\ conc' = IF Class = "Tridiag" /\ ~conc[o].fact
             THEN [conc EXCEPT ![o].fact = TRUE,
                               ![o].gam = IF conc[o].cyc THEN <<conc[o].arr.s, conc[o].arr.v>> ELSE conc[o].gam,
                               ![o].arr = IF conc[o].arr.k = "A"
                                          THEN [k |-> "LDL", s |-> conc[o].arr.s, v |-> conc[o].arr.v, c |-> conc[o].cyc]
                                          ELSE [k |-> "junk", s |-> conc[o].arr.s, v |-> 99, c |-> FALSE]]
             ELSE conc
  /\ Quiet /\ Record("SO", o, 0, 0, 0)

Apply(act, d, s, r, absd, abss) ==
  /\ conc' = [conc EXCEPT ![d] = r.d, ![s] = r.s]
  /\ abs' = [abs EXCEPT ![d] = absd, ![s] = abss]
  /\ threw' = r.threw
  /\ oob' = (oob \/ r.oob)
  /\ Record(act, d, s, 0, 0)

CopyConstructA(d, s) == d # s /\ Apply("CC", d, s, CopyCtor(conc[s]), abs[s], abs[s])
CopyAssignA(d, s)    == d # s /\ Apply("CA", d, s, CopyAssign(conc[d], conc[s]), abs[s], abs[s])
MoveConstructA(d, s) == d # s /\ Apply("MC", d, s, MoveCtor(conc[s]), abs[s], AbsEmpty)
MoveAssignA(d, s)    == d # s /\ Apply("MA", d, s, MoveAssign(conc[d], conc[s]), abs[s], AbsEmpty)

Init ==
  /\ abs = [o \in Obj |-> AbsEmpty]
  /\ conc = [o \in Obj |-> ConcEmpty]
  /\ threw = FALSE /\ oob = FALSE
  /\ hist = <<>>
  /\ last = [a |-> "Init", d |-> 0, s |-> 0, x |-> 0, y |-> 0]
  /\ prev = [o \in Obj |-> ConcEmpty]

Step ==
  \/ \E o \in Obj : DefaultConstruct(o)
  \/ \E o \in Obj, s \in Shapes, v \in Variants : Construct(o, s, v)
  \/ \E o \in Obj, v \in Variants : SetEntries(o, v)
  \/ \E o \in Obj, b \in BOOLEAN : SetCyclic(o, b) \/ SetSym(o, b)
  \/ \E o \in Obj : Solve(o)
  \/ \E d \in Obj, s \in Obj : CopyConstructA(d, s) \/ CopyAssignA(d, s) \/ MoveConstructA(d, s) \/ MoveAssignA(d, s)
\* after an exception the destination is only destructible: the history stops
Next == ~threw /\ Step

Spec == Init /\ [][Next]_vars

(* ------------------------------- properties ------------------------------ *)
\* an operation that threw leaves the destination in an unspecified (but destructible) state: the
\* ideal has no throwing copy at all, so NoThrow is itself part of the property
NoThrow == ~threw
InBounds == ~oob
Refines == threw \/ \A o \in Obj : Proj(conc[o]) = abs[o]
\* CopyEqualsSource / MoveEqualsSource / Independent are Refines read at the step after a copy/move:
\* abs' is defined by value semantics (destination = source's old value, source unchanged or empty,
\* all other objects untouched), so Proj(conc') = abs' says exactly that about the code.

(* ------------------------- test-case generation -------------------------- *)
\* one state per edge of the (history-free) state graph: TLC reaches each <<pre, action, post>> once,
\* by a shortest history, and prints that history with the ideal value expected after every step.
EdgeView == <<prev, last, conc, abs, threw>>
PlainView == <<abs, conc, threw, oob>>
Emit == IF GenCases /\ Len(hist) > 0 THEN PrintT("@@CASE " \o ToJson(hist)) ELSE TRUE
\* Emit is used as an INVARIANT: TLC evaluates invariants once per distinct (VIEW) state
Bound == Len(hist) <= MaxHist
=============================================================================
