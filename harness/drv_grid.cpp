// Conformance driver for spec/PolarGridSpec.tla (C17): real PolarGrid vs TLC's index/neighbour/split/coarsening tables.
// usage: drv_grid <tables.ndjson>
#include <GMGPolar/gmgpolar.h>
#include <PolarGrid/polargrid.h>
#include <cstring>
#include <cmath>
#include <fstream>
#include <iostream>
#include <optional>
#include "mini_json.h"

static std::string chk(const mj::Value& t, const PolarGrid& G, double unit, double aunit)
{
    int nr = t["nr"].num(), nt = t["nt"].num(), nc = t["nc"].num();
    auto S = [](int a) { return std::to_string(a); };
    if (G.nr() != nr || G.ntheta() != nt)
        return "nr/ntheta " + S(G.nr()) + "/" + S(G.ntheta());
    if (G.numberSmootherCircles() != nc)
        return "numberSmootherCircles " + S(G.numberSmootherCircles()) + " model " + S(nc);
    if (G.lengthSmootherRadial() != nr - nc || G.numberOfNodes() != nr * nt || G.numberCircularSmootherNodes() != nc * nt ||
        G.numberRadialSmootherNodes() != (nr - nc) * nt)
        return "split sizes inconsistent";
    for (int ir = 0; ir < nr; ir++)
        for (int k = 0; k <= 6 * nt; k++) {
            int u = k - 3 * nt, want = t["idx"][ir][k].num();
            if (G.index(ir, u) != want)
                return "index(" + S(ir) + "," + S(u) + ")=" + S(G.index(ir, u)) + " model " + S(want);
            int w = G.wrapThetaIndex(u);
            if (w < 0 || w >= nt || G.fastIndex(ir, w) != want)
                return "wrapThetaIndex/fastIndex(" + S(ir) + "," + S(u) + ")";
            if (G.angularSpacing(u) != G.angularSpacing(w))
                return "angularSpacing not periodic at " + S(u);
        }
    for (int n = 0; n < nr * nt; n++) {
        int mr = t["multi"][n][0].num(), mt = t["multi"][n][1].num(), ir, it;
        G.multiIndex(n, ir, it);
        MultiIndex m = G.multiIndex(n);
        if (ir != mr || it != mt || m[0] != mr || m[1] != mt)
            return "multiIndex(" + S(n) + ")=(" + S(ir) + "," + S(it) + ")/(" + S(m[0]) + "," + S(m[1]) + ") model (" + S(mr) + "," + S(mt) + ")";
        if (G.index(m) != n)
            return "index(multiIndex(n)) != n at " + S(n);
        std::array<std::pair<int, int>, space_dimension> a, d;
        G.adjacentNeighborsOf(m, a);
        G.diagonalNeighborsOf(m, d);
        const auto& ta = t["adj"][n];
        const auto& td = t["diag"][n];
        if (a[0].first != ta[0][0].num() || a[0].second != ta[0][1].num() || a[1].first != ta[1][0].num() ||
            a[1].second != ta[1][1].num())
            return "adjacentNeighborsOf node " + S(n);
        if (d[0].first != td[0][0].num() || d[0].second != td[0][1].num() || d[1].first != td[1][0].num() ||
            d[1].second != td[1][1].num())
            return "diagonalNeighborsOf node " + S(n);
        std::array<std::pair<double, double>, space_dimension> dist;
        G.adjacentNeighborDistances(m, dist);
        double hin = mr > 0 ? (t["rad"][mr].dbl() - t["rad"][mr - 1].dbl()) * unit : 0.0;
        double hout = mr < nr - 1 ? (t["rad"][mr + 1].dbl() - t["rad"][mr].dbl()) * unit : 0.0;
        int tl = (mt + nt - 1) % nt;
        double kl = (t["ang"][tl + 1].dbl() - t["ang"][tl].dbl()) * aunit, kr = (t["ang"][mt + 1].dbl() - t["ang"][mt].dbl()) * aunit;
        if (fabs(dist[0].first - hin) > 1e-12 || fabs(dist[0].second - hout) > 1e-12 || fabs(dist[1].first - kl) > 1e-12 ||
            fabs(dist[1].second - kr) > 1e-12)
            return "adjacentNeighborDistances node " + S(n);
        Point p = G.polarCoordinates(m);
        if (fabs(p[0] - t["rad"][mr].dbl() * unit) > 1e-12 || fabs(p[1] - t["ang"][mt].dbl() * aunit) > 1e-12)
            return "polarCoordinates node " + S(n);
    }
    return "";
}

// "param" mode: the PARAMETRIC constructor is a third implementation of the same set-up.  Every query of the grid it returns
// must agree with the grid's own coordinates and with a twin built by the vector constructor (the path bound to the TLC tables).
static std::string chkParam(const PolarGrid& P, const PolarGrid& V)
{
    auto S = [](int a) { return std::to_string(a); };
    const int nr = P.nr(), nt = P.ntheta();
    if (V.nr() != nr || V.ntheta() != nt)
        return "twin has other sizes";
    if (P.numberSmootherCircles() != V.numberSmootherCircles() || P.lengthSmootherRadial() != V.lengthSmootherRadial() ||
        P.numberOfNodes() != nr * nt)
        return "numberSmootherCircles " + S(P.numberSmootherCircles()) + " twin " + S(V.numberSmootherCircles());
    for (int i = 0; i + 1 < nr; i++) {
        if (!(P.radius(i) < P.radius(i + 1)))
            return "radii not increasing at " + S(i);
        if (fabs(P.radialSpacing(i) - (P.radius(i + 1) - P.radius(i))) > 1e-12 || P.radialSpacing(i) != V.radialSpacing(i))
            return "radialSpacing(" + S(i) + ")=" + std::to_string(P.radialSpacing(i)) + " but radius(i+1)-radius(i)=" +
                   std::to_string(P.radius(i + 1) - P.radius(i));
    }
    for (int j = -nt; j < 2 * nt; j++) {
        int w = P.wrapThetaIndex(j);
        if (w < 0 || w >= nt || w != V.wrapThetaIndex(j))
            return "wrapThetaIndex(" + S(j) + ")";
        double next = w + 1 < nt ? P.theta(w + 1) : 2 * M_PI;
        if (fabs(P.angularSpacing(j) - (next - P.theta(w))) > 1e-12 || P.angularSpacing(j) != V.angularSpacing(j))
            return "angularSpacing(" + S(j) + ")=" + std::to_string(P.angularSpacing(j)) + " but the angles differ by " + std::to_string(next - P.theta(w));
    }
    std::vector<char> seen(nr * nt, 0);
    for (int ir = 0; ir < nr; ir++)
        for (int it = 0; it < nt; it++) {
            int n = P.index(ir, it);
            if (n < 0 || n >= nr * nt || seen[n] || n != V.index(ir, it))
                return "index(" + S(ir) + "," + S(it) + ")=" + S(n) + " is not a bijection / differs from the twin";
            seen[n] = 1;
            MultiIndex m = P.multiIndex(n);
            if (m[0] != ir || m[1] != it)
                return "multiIndex(index) at (" + S(ir) + "," + S(it) + ")";
            std::array<std::pair<double, double>, space_dimension> d, e;
            P.adjacentNeighborDistances(m, d);
            V.adjacentNeighborDistances(m, e);
            double hin = ir > 0 ? P.radius(ir) - P.radius(ir - 1) : 0.0, hout = ir < nr - 1 ? P.radius(ir + 1) - P.radius(ir) : 0.0;
            if (fabs(d[0].first - hin) > 1e-12 || fabs(d[0].second - hout) > 1e-12 || d[0] != e[0] || d[1] != e[1])
                return "adjacentNeighborDistances at (" + S(ir) + "," + S(it) + ")";
            Point p = P.polarCoordinates(m);
            if (p[0] != P.radius(ir) || p[1] != P.theta(it))
                return "polarCoordinates at (" + S(ir) + "," + S(it) + ")";
        }
    return "";
}
static int paramMode(std::ifstream& in)
{
    std::string line;
    long n = 0, nfail = 0;
    while (std::getline(in, line)) {
        if (line.empty())
            continue;
        n++;
        mj::Value t = mj::parse(line);
        std::string fail;
        try {
            std::optional<double> split = t["split"].dbl() < -0.5 ? std::nullopt : std::optional<double>(t["split"].dbl());
            PolarGrid P(t["R0"].dbl(), t["R"].dbl(), (int)t["nrexp"].num(), (int)t["ntexp"].num(), t["rr"].dbl(), (int)t["a"].num(), (int)t["d"].num(), split);
            std::vector<double> rad(P.nr()), ang(P.ntheta() + 1);
            for (int i = 0; i < P.nr(); i++)
                rad[i] = P.radius(i);
            for (int j = 0; j < P.ntheta(); j++)
                ang[j] = P.theta(j);
            ang[P.ntheta()] = 2 * M_PI;
            PolarGrid V(rad, ang, split);
            fail = chkParam(P, V);
            if (fail.empty() && P.nr() >= 5 && P.ntheta() >= 4) {
                PolarGrid CP = coarseningGrid(P), CV = coarseningGrid(V);
                fail = chkParam(CP, CV);
                if (!fail.empty())
                    fail = "coarsened: " + fail;
            }
        }
        catch (const std::exception& e) {
            fail = std::string("constructor threw: ") + e.what();
        }
        if (!fail.empty()) {
            nfail++;
            printf("{\"fail\":true,\"param\":%s,\"what\":\"%s\"}\n", line.c_str(), fail.c_str());
        }
    }
    printf("{\"summary\":true,\"param_grids\":%ld,\"failed\":%ld}\n", n, nfail);
    return 0;
}

int main(int argc, char** argv)
{
    if (argc < 2)
        return 2;
    if (argc > 2 && std::string(argv[2]) == "param") {
        std::ifstream pin(argv[1]);
        return paramMode(pin);
    }
    std::ifstream in(argv[1]);
    std::string line;
    long n = 0, nfail = 0, ngrids = 0, ncache = 0;
    const bool cacheMode = argc > 2 && std::string(argv[2]) == "cache";
    const char* fileDir  = argc > 3 ? argv[3] : nullptr; // scratch directory: also build every grid through the grid-file constructor
    long nfilegrids      = 0;
    while (std::getline(in, line)) {
        if (line.empty())
            continue;
        n++;
        mj::Value t = mj::parse(line);
        int nr = t["nr"].num(), nt = t["nt"].num(), nc = t["nc"].num();
        bool autoSplit = t["auto"].boolean();
        const double unit = 0.1, M = t["ang"][nt].dbl(), aunit = 2 * M_PI / M;
        std::vector<double> rad(nr), ang(nt + 1);
        for (int i = 0; i < nr; i++)
            rad[i] = t["rad"][i].dbl() * unit;
        for (int j = 0; j <= nt; j++)
            ang[j] = t["ang"][j].dbl() * aunit;
        ang[nt] = 2 * M_PI;
        std::string fail;
        try {
            std::vector<std::optional<double>> splits;
            if (autoSplit)
                splits.push_back(std::nullopt);
            else {
                // every splitting radius that must give nc circles: below R0, on a node, between nodes, at/above Rmax
                if (nc == 0) {
                    splits.push_back(rad[0] - 0.05);
                    splits.push_back(-1.0);
                }
                else if (nc == nr) {
                    splits.push_back(rad[nr - 1] + 1e-9);
                    splits.push_back(rad[nr - 1] + 7.0);
                }
                else {
                    splits.push_back(rad[nc]);
                    splits.push_back(0.5 * (rad[nc - 1] + rad[nc]));
                    splits.push_back(std::nextafter(rad[nc - 1], 1e9));
                }
            }
            for (auto& s : splits) {
                PolarGrid G(rad, ang, s);
                ngrids++;
                fail = chk(t, G, unit, aunit);
                if (fail.empty() && fileDir != nullptr) { // the grid-file constructor is a second implementation of the same set-up
                    std::string fr = std::string(fileDir) + "/g_radii.txt", fa = std::string(fileDir) + "/g_angles.txt";
                    {
                        std::ofstream o(fr), q(fa);
                        o.precision(18);
                        q.precision(18);
                        for (double r : rad)
                            o << std::fixed << r << "\n";
                        for (double a : ang)
                            q << std::fixed << a << "\n";
                    }
                    PolarGrid F(fr, fa, s);
                    fail = chk(t, F, unit, aunit);
                    if (!fail.empty())
                        fail = "grid-file constructor: " + fail;
                    nfilegrids++;
                }
                if (!fail.empty()) {
                    fail += s.has_value() ? " (splitting radius " + std::to_string(*s) + ")" : " (automatic split)";
                    break;
                }
                if (t["coarsenable"].boolean() && t["coarse"]["nr"].num() > 0) {
                    PolarGrid C = coarseningGrid(G);
                    if (C.nr() != t["coarse"]["nr"].num() || C.ntheta() != t["coarse"]["nt"].num() ||
                        C.numberSmootherCircles() != t["coarse"]["nc"].num()) {
                        fail = "coarseningGrid gives " + std::to_string(C.nr()) + "x" + std::to_string(C.ntheta()) + " circles " +
                               std::to_string(C.numberSmootherCircles()) + ", model " + std::to_string(t["coarse"]["nr"].num()) + "x" +
                               std::to_string(t["coarse"]["nt"].num()) + " circles " + std::to_string(t["coarse"]["nc"].num());
                        break;
                    }
                    for (int i = 0; i < C.nr(); i++)
                        if (C.radius(i) != G.radius(2 * i))
                            fail = "coarse radius " + std::to_string(i) + " is not fine radius " + std::to_string(2 * i);
                    for (int j = 0; j <= C.ntheta(); j++)
                        if (C.theta(j) != G.theta(2 * j))
                            fail = "coarse angle " + std::to_string(j) + " is not fine angle " + std::to_string(2 * j);
                    if (!fail.empty())
                        break;
                    // LevelCache derived from the finer level (as setup() does) against a cache evaluated on the coarse grid itself:
                    // every cached array, bit for bit, for every pair of fine / coarse splits of this instance (spec: CacheDerivation)
                    if (cacheMode && G.nr() >= 3 && C.nr() >= 2) {
                        CzarnyGeometry geom(rad[nr - 1], 0.3, 1.4);
                        SonnendruckerGyroCoefficients coeff(rad[nr - 1], 0.66);
                        for (int variant = 0; variant < 3 && fail.empty(); variant++) {
                            const bool cdp = variant != 2, cdg = variant != 1;
                            auto g0 = std::make_unique<PolarGrid>(G);
                            auto c0 = std::make_unique<LevelCache>(*g0, coeff, geom, cdp, cdg);
                            Level L0(0, std::move(g0), std::move(c0), ExtrapolationType::NONE, false);
                            LevelCache der(L0, C);
                            LevelCache fresh(C, coeff, geom, cdp, cdg);
                            auto same = [&](const char* name, const auto& a, const auto& b) {
                                if (!fail.empty())
                                    return;
                                if (a.size() != b.size()) {
                                    fail = std::string("coarse cache ") + name + " has " + std::to_string(a.size()) + " entries, a cache built on the coarse grid " + std::to_string(b.size());
                                    return;
                                }
                                for (int q = 0; q < (int)a.size(); q++)
                                    if (std::memcmp(&a[q], &b[q], sizeof(double)) != 0) {
                                        int ir, it;
                                        if ((int)a.size() == C.numberOfNodes())
                                            C.multiIndex(q, ir, it);
                                        else
                                            ir = it = q;
                                        fail = std::string("coarse cache ") + name + " at (" + std::to_string(ir) + "," + std::to_string(it) + ") = " + std::to_string(a[q]) +
                                               ", evaluated on the coarse grid " + std::to_string(b[q]) + " [fine circles " + std::to_string(G.numberSmootherCircles()) +
                                               ", coarse circles " + std::to_string(C.numberSmootherCircles()) + ", caches " + (cdp ? "1" : "0") + (cdg ? "1" : "0") + "]";
                                        return;
                                    }
                            };
                            same("sin_theta", der.sin_theta(), fresh.sin_theta());
                            same("cos_theta", der.cos_theta(), fresh.cos_theta());
                            same("coeff_alpha", der.coeff_alpha(), fresh.coeff_alpha());
                            same("coeff_beta", der.coeff_beta(), fresh.coeff_beta());
                            same("arr", der.arr(), fresh.arr());
                            same("att", der.att(), fresh.att());
                            same("art", der.art(), fresh.art());
                            same("detDF", der.detDF(), fresh.detDF());
                            ncache++;
                        }
                        if (!fail.empty()) {
                            fail = "cache: " + fail;
                            break;
                        }
                    }
                }
            }
        }
        catch (const std::exception& e) {
            fail = std::string("constructor threw: ") + e.what();
        }
        if (!fail.empty()) {
            nfail++;
            if (nfail <= 30)
                std::cout << "{\"fail\":true,\"nr\":" << nr << ",\"nt\":" << nt << ",\"nc\":" << nc << ",\"auto\":" << autoSplit
                          << ",\"what\":\"" << mj::escape(fail) << "\",\"rad\":" << "[]" << "}" << std::endl;
        }
    }
    std::cout << "{\"summary\":true,\"tables\":" << n << ",\"grids\":" << ngrids << ",\"caches\":" << ncache << ",\"file_grids\":" << nfilegrids << ",\"failed\":" << nfail << "}" << std::endl;
    return 0;
}
