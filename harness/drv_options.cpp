// Option-space driver for spec/OptionSpace.tla (C20): runs one configuration per input line through the API.
// usage: drv_options <cases.ndjson> [from]
// Output per case: {"case":i,"api":"Runs"|"Rejected","where":..,"what":..,"nIter":..,"finite":..,"statsDefined":..}
#include <cmath>
#include <fstream>
#include <iostream>
#include "verif_access.h"
#include "mini_json.h"

int main(int argc, char** argv)
{
    if (argc < 2)
        return 2;
    std::ifstream in(argv[1]);
    long from = argc > 2 ? atol(argv[2]) : 0;
    FILE* prog = fopen((std::string(argv[1]) + ".progress").c_str(), "w");
    std::string line;
    long n = 0;
    while (std::getline(in, line)) {
        if (line.empty())
            continue;
        n++;
        if (n <= from)
            continue;
        rewind(prog);
        fprintf(prog, "%ld\n", n);
        fflush(prog);
        mj::Value cs       = mj::parse(line);
        const mj::Value& c = cs["cfg"];
        auto I             = [&](const char* k) { return c[k].num(); };
        std::string where = "", what = "";
        bool rejected = false;
        int nIter = -1, finite = 1, statsDefined = 1, levels = -1;
        double rho = 0;
        try {
            where = "construct";
            std::vector<std::string> args = {"drv",
                                             "--geometry",
                                             std::to_string(I("geometry")),
                                             "--problem",
                                             std::to_string(I("problem")),
                                             "--alpha_coeff",
                                             std::to_string(I("alpha")),
                                             "--beta_coeff",
                                             std::to_string(I("beta")),
                                             "--kappa_eps",
                                             I("geometry") == 0 ? "0.0" : "0.3",
                                             "--delta_e",
                                             I("geometry") == 2 ? "1.4" : (I("geometry") == 1 ? "0.2" : "0.0"),
                                             "--alpha_jump",
                                             "0.66",
                                             "--R0",
                                             "1e-5",
                                             "--verbose",
                                             "0"};
            std::vector<char*> av;
            for (auto& s : args)
                av.push_back(s.data());
            GMGPolar g;
            g.setParameters((int)av.size(), av.data());
            where = "setters";
            g.verbose(0);
            g.nr_exp(I("nr_exp"));
            g.ntheta_exp(I("ntheta_exp") == 0 ? -1 : I("ntheta_exp"));
            g.anisotropic_factor(0);
            g.divideBy2(I("divideBy2"));
            g.maxLevels(I("maxLevels") == 0 ? -1 : I("maxLevels"));
            g.DirBC_Interior(I("DirBC") != 0);
            g.extrapolation(static_cast<ExtrapolationType>(I("ext")));
            g.FMG(I("fmg") != 0);
            g.FMG_iterations(I("fmgIts"));
            g.FMG_cycle(static_cast<MultigridCycleType>(I("fmgCycle")));
            g.multigridCycle(static_cast<MultigridCycleType>(I("cycle")));
            g.preSmoothingSteps(I("pre"));
            g.postSmoothingSteps(I("post"));
            g.maxIterations(I("maxIter"));
            g.residualNormType(static_cast<ResidualNormType>(I("norm")));
            g.absoluteTolerance(I("absOn") ? 1e-8 : -1.0);
            g.relativeTolerance(I("relOn") ? 1e-8 : -1.0);
            g.stencilDistributionMethod(static_cast<StencilDistributionMethod>(I("method")));
            g.cacheDensityProfileCoefficients(I("cacheDP") != 0);
            g.cacheDomainGeometry(I("cacheDG") != 0);
            g.maxOpenMPThreads(I("threads"));
            if (!I("exact"))
                g.setSolution(nullptr);
            where = "setup";
            g.setup();
            levels = GMGPolarVerifAccess::nlevels(g);
            where  = "solve";
            g.solve();
            where = "getters";
            nIter = g.numberOfIterations();
            rho   = g.meanResidualReductionFactor();
            auto e2 = g.exactErrorWeightedEuclidean();
            auto ei = g.exactErrorInfinity();
            statsDefined = nIter >= 0 && nIter <= I("maxIter") && !(rho != rho && nIter == 0) &&
                           (e2.has_value() == ei.has_value()) && (!e2.has_value() || (*e2 == *e2 && *ei == *ei));
            const auto& u = g.solution();
            for (int i = 0; i < u.size(); i++)
                if (!std::isfinite(u[i]))
                    finite = 0;
        }
        catch (const std::exception& e) {
            rejected = true;
            what     = e.what();
        }
        std::cout << "{\"case\":" << n << ",\"api\":\"" << (rejected ? "Rejected" : "Runs") << "\",\"where\":\"" << where
                  << "\",\"what\":\"" << mj::escape(what).substr(0, 100) << "\",\"nIter\":" << nIter << ",\"finite\":" << finite
                  << ",\"statsDefined\":" << statsDefined << ",\"levels\":" << levels << ",\"rhoNaN\":" << (rho != rho) << "}"
                  << std::endl;
    }
    std::cout << "{\"summary\":true,\"cases\":" << n << "}" << std::endl;
    return 0;
}
