// Conformance driver for spec/GridGen.tla and spec/GridLoader.tla (C18).
// usage: drv_gridgen gen <tables.ndjson> | load <tables.ndjson> <tmpdir> | roundtrip <tmpdir> <seed>
#include <cmath>
#include <filesystem>
#include <fstream>
#include <iostream>
#include <random>
#include <set>
#include <tuple>
#include "verif_access.h"
#include "mini_json.h"

static int gen(const char* file)
{
    std::ifstream in(file);
    std::string line;
    long n = 0, nfail = 0;
    FILE* prog = fopen((std::string(file) + ".progress").c_str(), "w");
    while (std::getline(in, line)) {
        if (line.empty())
            continue;
        n++;
        rewind(prog);
        fprintf(prog, "%ld\n", n);
        fflush(prog);
        mj::Value t      = mj::parse(line);
        const auto& p    = t["p"];
        int nrexp = p["nrexp"].num(), a = p["a"].num(), fl = p["fl"].num(), d = p["d"].num(), ntexp = p["ntexp"].num(),
            maxlev = p["maxlev"].num();
        std::string status = t["status"].str(), fail;
        const double R0s[2] = {0.1, 1e-5}, Rmax = 1.3;
        for (int v = 0; v < 2 && fail.empty(); v++) {
            double R0 = R0s[v];
            int nrA   = t["nrAniso"].num();
            double pct = fl == nrA ? 1.0 : (v == 1 && fl == 0) ? 0.0 : (fl + 0.5) / nrA; // second variant: the refinement radius exactly at R0 (and at Rmax for fl = nr)
            double rr  = a == 0 ? 0.0 : R0 + pct * (Rmax - R0); // a = 0: the refinement radius is ignored (CLI default 0)
            try {
                PolarGrid G(R0, Rmax, nrexp, ntexp == 0 ? -1 : ntexp, rr, a, d);
                if (status != "ok") {
                    fail = "model says " + status + " (" + t["why"].str() + ") but the constructor returned a grid";
                    break;
                }
                const auto& r = t["r"].arr();
                if ((int)r.size() != G.nr()) {
                    fail = "nr=" + std::to_string(G.nr()) + " model " + std::to_string(r.size());
                    break;
                }
                if (G.radius(0) != R0 || G.radius(G.nr() - 1) != Rmax) {
                    fail = "end points are not exactly R0/Rmax";
                    break;
                }
                double rmax = t["rmax"].dbl();
                for (int i = 0; i < G.nr() && fail.empty(); i++) {
                    double want = R0 + r[i].dbl() / rmax * (Rmax - R0);
                    if (!(fabs(G.radius(i) - want) <= 1e-12))
                        fail = "radius " + std::to_string(i) + " = " + std::to_string(G.radius(i)) + " model " + std::to_string(want);
                    if (i > 0 && !(G.radius(i) > G.radius(i - 1)))
                        fail = "radii not strictly increasing at " + std::to_string(i);
                }
                if (fail.empty() && G.ntheta() != t["nt"].num())
                    fail = "ntheta=" + std::to_string(G.ntheta()) + " model " + std::to_string(t["nt"].num());
                for (int j = 0; j < G.ntheta() && fail.empty(); j++) {
                    if (fabs(G.theta(j) - 2 * M_PI * j / G.ntheta()) > 1e-12)
                        fail = "angles not uniform";
                    if (fabs(G.theta((j + G.ntheta() / 2) % G.ntheta()) - fmod(G.theta(j) + M_PI, 2 * M_PI)) > 1e-12)
                        fail = "angle without antipodal partner";
                }
                // the grid admits the number of levels the rule (and setup) reports
                int lev = t["levels"].num();
                if (fail.empty() && lev >= 2) {
                    PolarGrid C = G;
                    for (int k = 1; k < lev; k++) {
                        C = coarseningGrid(C);
                        if (C.radius(0) != R0 || C.radius(C.nr() - 1) != Rmax)
                            fail = "coarse level " + std::to_string(k) + " lost a boundary";
                    }
                }
                static std::set<std::tuple<int, int, int>> setupSeen; // the level count depends on (nr, ntheta, cap) only
                if (fail.empty() && v == 0 && (long)G.nr() * G.ntheta() <= 40000 && setupSeen.insert({G.nr(), G.ntheta(), maxlev}).second) { // what setup() reports (a full setup: not on the largest grids)
                    GMGPolar S;
                    std::vector<std::string> args = {"drv", "--verbose", "0", "--alpha_jump", std::to_string(rr), "--R0", "0.1", "--Rmax", "1.3"};
                    std::vector<char*> av;
                    for (auto& s : args)
                        av.push_back(s.data());
                    S.setParameters((int)av.size(), av.data());
                    S.verbose(0);
                    S.nr_exp(nrexp);
                    S.ntheta_exp(ntexp == 0 ? -1 : ntexp);
                    S.anisotropic_factor(a);
                    S.divideBy2(d);
                    S.maxLevels(maxlev == 0 ? -1 : maxlev);
                    try {
                        S.setup();
                        int got = GMGPolarVerifAccess::nlevels(S);
                        if (got != lev)
                            fail = "setup() reports " + std::to_string(got) + " levels, model " + std::to_string(lev);
                    }
                    catch (const std::exception& e) {
                        if (lev >= 2)
                            fail = std::string("setup() threw on an admitted grid: ") + e.what();
                    }
                }
            }
            catch (const std::exception& e) {
                if (status == "ok")
                    fail = std::string("constructor threw on an accepted parameter set: ") + e.what();
            }
        }
        if (!fail.empty()) {
            nfail++;
            if (nfail <= 40)
                std::cout << "{\"fail\":true,\"p\":{\"nrexp\":" << nrexp << ",\"a\":" << a << ",\"fl\":" << fl << ",\"d\":" << d
                          << ",\"ntexp\":" << ntexp << ",\"maxlev\":" << maxlev << "},\"status\":\"" << status << "\",\"what\":\""
                          << mj::escape(fail) << "\"}" << std::endl;
        }
    }
    std::cout << "{\"summary\":true,\"tables\":" << n << ",\"failed\":" << nfail << "}" << std::endl;
    return 0;
}

static int load(const char* file, const std::string& dir)
{
    std::ifstream in(file);
    std::string line;
    long n = 0, nfail = 0;
    std::string fa = dir + "/angles.txt";
    {
        std::ofstream o(fa);
        o.precision(18);
        for (int j = 0; j <= 8; j++)
            o << std::fixed << (j == 8 ? 2 * M_PI : 2 * M_PI * j / 8) << "\n";
    }
    while (std::getline(in, line)) {
        if (line.empty())
            continue;
        n++;
        mj::Value t      = mj::parse(line);
        bool missing     = t["missing"].boolean();
        std::string want = t["outcome"].str(), fr = dir + "/radii.txt", fail;
        std::filesystem::remove(fr);
        std::vector<double> vals;
        if (!missing) {
            std::ofstream o(fr);
            size_t k = 0;
            for (const auto& tok : t["file"].arr()) {
                const char* s = t["sep"][k++].boolean() ? " " : "\n";
                int v         = tok.num();
                if (v == -1)
                    o << "abc" << s;
                else if (v == -2)
                    o << "inf" << s;
                else if (v >= 11)
                    o << 0.1 * (v - 10) << (k % 2 ? "cm" : ";") << s; // a number with garbage glued to it
                else {
                    o << 0.1 * v << s;
                    vals.push_back(0.1 * v);
                }
            }
        }
        bool accepted = false;
        try {
            PolarGrid G(fr, fa);
            accepted = true;
            if (want == "accepted") {
                if (G.nr() != (int)t["file"].arr().size())
                    fail = "accepted grid has " + std::to_string(G.nr()) + " radii, file has " + std::to_string(t["file"].arr().size());
                for (int i = 0; i < G.nr() && fail.empty(); i++)
                    if (fabs(G.radius(i) - vals[i]) > 1e-15)
                        fail = "radius differs from file";
            }
        }
        catch (const std::exception& e) {
            accepted = false;
        }
        if (fail.empty() && accepted != (want == "accepted"))
            fail = std::string("file is ") + (accepted ? "accepted" : "rejected") + ", model says " + want;
        if (!fail.empty()) {
            nfail++;
            if (nfail <= 20)
                std::cout << "{\"fail\":true,\"what\":\"" << mj::escape(fail) << "\",\"table\":" << line << "}" << std::endl;
        }
    }
    std::cout << "{\"summary\":true,\"tables\":" << n << ",\"failed\":" << nfail << "}" << std::endl;
    return 0;
}

static int roundtrip(const std::string& dir, unsigned seed)
{
    std::mt19937 gen(seed);
    long n = 0, nfail = 0;
    for (int c = 0; c < 40; c++) {
        int nrexp = 2 + gen() % 4, a = gen() % (nrexp), d = gen() % 2, prec = (c % 3 == 0) ? 14 : (c % 3 == 1 ? 16 : 18);
        double R0 = (gen() % 2) ? 1e-5 : 0.2, Rmax = 1.3;
        double rr = R0 + (0.1 + 0.8 * (gen() % 1000) / 1000.0) * (Rmax - R0);
        std::string fail;
        try {
            PolarGrid G(R0, Rmax, nrexp, -1, rr, a, d);
            G.writeToFile(dir + "/rt_r.txt", dir + "/rt_t.txt", prec);
            PolarGrid H(dir + "/rt_r.txt", dir + "/rt_t.txt");
            if (H.nr() != G.nr() || H.ntheta() != G.ntheta())
                fail = "size changed by the round trip";
            double tol = pow(10.0, -prec) * 0.5000001 + 1e-15;
            for (int i = 0; i < G.nr() && fail.empty(); i++)
                if (fabs(H.radius(i) - G.radius(i)) > tol)
                    fail = "radius " + std::to_string(i) + " changed by more than the written precision";
            for (int j = 0; j <= G.ntheta() && fail.empty(); j++)
                if (fabs(H.theta(j) - G.theta(j)) > tol)
                    fail = "angle changed by more than the written precision";
        }
        catch (const std::exception& e) {
            // low precision can make the reloaded arrays invalid (first radius 0, last angle != 2 pi): reported, judged by the caller
            fail = std::string("round trip threw: ") + e.what() + " (precision " + std::to_string(prec) + ")";
        }
        n++;
        if (!fail.empty()) {
            nfail++;
            std::cout << "{\"fail\":true,\"prec\":" << prec << ",\"R0\":" << R0 << ",\"nrexp\":" << nrexp << ",\"a\":" << a << ",\"d\":" << d
                      << ",\"what\":\"" << mj::escape(fail) << "\"}" << std::endl;
        }
    }
    std::cout << "{\"summary\":true,\"tables\":" << n << ",\"failed\":" << nfail << "}" << std::endl;
    return 0;
}

// spec/GridValid.tla: which coordinate vectors the constructors accept (vector constructor and grid-file constructor)
static int valid(const char* file, const std::string& dir)
{
    std::ifstream in(file);
    std::string line;
    long n = 0, nfail = 0;
    while (std::getline(in, line)) {
        if (line.empty())
            continue;
        n++;
        mj::Value t = mj::parse(line);
        const int full = t["full"].num();
        std::vector<double> rad, ang;
        for (const auto& r : t["rad"].arr())
            rad.push_back(0.25 * r.num());
        for (const auto& a : t["ang"].arr())
            ang.push_back(a.num() == full ? 2 * M_PI : 2 * M_PI * a.num() / full);
        const bool want = t["accept"].boolean();
        std::string fail;
        for (int path = 0; path < 2 && fail.empty(); path++) {
            bool got = false;
            std::string what;
            try {
                if (path == 0) {
                    PolarGrid G(rad, ang);
                    got = G.nr() == (int)rad.size() && G.ntheta() == (int)ang.size() - 1;
                }
                else {
                    std::string fr = dir + "/v_radii.txt", fa = dir + "/v_angles.txt";
                    {
                        std::ofstream o(fr), p(fa);
                        o.precision(18);
                        p.precision(18);
                        for (double r : rad)
                            o << std::fixed << r << "\n";
                        for (double a : ang)
                            p << std::fixed << a << "\n";
                    }
                    PolarGrid G(fr, fa);
                    got = true;
                }
            }
            catch (const std::exception& e) {
                got  = false;
                what = e.what();
            }
            if (got != want)
                fail = std::string(path ? "grid-file constructor " : "vector constructor ") + (got ? "accepts" : "rejects (" + what.substr(0, 60) + ")") +
                       " a coordinate set the specification " + (want ? "accepts" : "rejects: " + t["why"].str());
        }
        if (!fail.empty()) {
            nfail++;
            if (nfail <= 30)
                std::cout << "{\"fail\":true,\"what\":\"" << mj::escape(fail) << "\",\"table\":" << line << "}\n";
        }
    }
    std::cout << "{\"summary\":true,\"cases\":" << n << ",\"failed\":" << nfail << "}\n";
    return 0;
}

int main(int argc, char** argv)
{
    std::string m = argc > 1 ? argv[1] : "";
    if (m == "valid" && argc > 3)
        return valid(argv[2], argv[3]);
    if (m == "gen" && argc > 2)
        return gen(argv[2]);
    if (m == "load" && argc > 3)
        return load(argv[2], argv[3]);
    if (m == "roundtrip" && argc > 3)
        return roundtrip(argv[2], (unsigned)atoi(argv[3]));
    return 2;
}
