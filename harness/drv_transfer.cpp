// Conformance driver for spec/Transfer.tla (C08, C09 interpolation half): probes the real transfer operators with unit
// vectors and compares every matrix entry with TLC's exact weight tables; restriction must be the exact transpose.
// usage: drv_transfer tables <file.ndjson> <threads>
//        drv_transfer large <seed> <threads>     (grids above the 10 000-node parallel threshold: adjointness, opt = ref)
#include <cmath>
#include <fstream>
#include <iostream>
#include <map>
#include <random>
#include "verif_access.h"
#include <InputFunctions/DensityProfileCoefficients/poissonCoefficients.h>
#include "mini_json.h"

using Vec = Vector<double>;
struct Pair {
    std::unique_ptr<Level> fine, coarse;
};
static Pair makeLevels(const std::vector<double>& rad, const std::vector<double>& ang, std::optional<double> splitF,
                       std::optional<double> splitC)
{
    static CircularGeometry geom(rad.back());
    static PoissonCoefficients coeff;
    auto fg = std::make_unique<PolarGrid>(rad, ang, splitF);
    std::vector<double> cr, ca;
    for (size_t i = 0; i < rad.size(); i += 2)
        cr.push_back(rad[i]);
    for (size_t j = 0; j < ang.size(); j += 2)
        ca.push_back(ang[j]);
    auto cg  = std::make_unique<PolarGrid>(cr, ca, splitC);
    auto fc  = std::make_unique<LevelCache>(*fg, coeff, geom, true, false);
    auto cc  = std::make_unique<LevelCache>(*cg, coeff, geom, true, false);
    Pair p;
    p.fine   = std::make_unique<Level>(0, std::move(fg), std::move(fc), ExtrapolationType::NONE, 0);
    p.coarse = std::make_unique<Level>(1, std::move(cg), std::move(cc), ExtrapolationType::NONE, 0);
    return p;
}

using Mat = std::map<std::pair<int, int>, long double>; // (fine node, coarse node) -> weight, node = ir * nt + it
static Mat tableOf(const mj::Value& rows, int ntF, int ntC)
{
    Mat m;
    for (const auto& r : rows.arr()) {
        int f = r["f"][0].num() * ntF + r["f"][1].num();
        for (const auto& w : r["ws"].arr()) {
            int c = w["c"][0].num() * ntC + w["c"][1].num();
            m[{f, c}] += (long double)w["w"][0].dbl() / (long double)w["w"][1].dbl();
        }
    }
    for (auto it = m.begin(); it != m.end();)
        it = (it->second == 0) ? m.erase(it) : std::next(it);
    return m;
}

enum Op { P0, P, PX0, PX, FI, R0, R, RX0, RX, INJ };
static const char* opName[] = {"applyProlongation0", "applyProlongation", "applyExtrapolatedProlongation0", "applyExtrapolatedProlongation",
                               "applyFMGInterpolation", "applyRestriction0", "applyRestriction", "applyExtrapolatedRestriction0",
                               "applyExtrapolatedRestriction", "applyInjection"};
static void apply(Interpolation& ip, Op op, Pair& L, Vec& out, const Vec& in)
{
    switch (op) {
    case P0: ip.applyProlongation0(*L.coarse, *L.fine, out, in); break;
    case P: ip.applyProlongation(*L.coarse, *L.fine, out, in); break;
    case PX0: ip.applyExtrapolatedProlongation0(*L.coarse, *L.fine, out, in); break;
    case PX: ip.applyExtrapolatedProlongation(*L.coarse, *L.fine, out, in); break;
    case FI: ip.applyFMGInterpolation(*L.coarse, *L.fine, out, in); break;
    case R0: ip.applyRestriction0(*L.fine, *L.coarse, out, in); break;
    case R: ip.applyRestriction(*L.fine, *L.coarse, out, in); break;
    case RX0: ip.applyExtrapolatedRestriction0(*L.fine, *L.coarse, out, in); break;
    case RX: ip.applyExtrapolatedRestriction(*L.fine, *L.coarse, out, in); break;
    case INJ: ip.applyInjection(*L.fine, *L.coarse, out, in); break;
    }
}
static bool toFine(Op op) { return op <= FI; }

// node numbering independent of the split: ir * nt + it
static int nodeOf(const PolarGrid& g, int idx)
{
    int ir, it;
    g.multiIndex(idx, ir, it);
    return ir * g.ntheta() + it;
}

static std::string compare(Interpolation& ip, Op op, Pair& L, const Mat& want /* keyed (fine, coarse) */)
{
    const PolarGrid& fg = L.fine->grid();
    const PolarGrid& cg = L.coarse->grid();
    const PolarGrid& from = toFine(op) ? cg : fg;
    const PolarGrid& to   = toFine(op) ? fg : cg;
    Vec in(from.numberOfNodes()), out(to.numberOfNodes());
    Mat got;
    for (int j = 0; j < from.numberOfNodes(); j++) {
        assign(in, 0.0);
        in[j] = 1.0;
        for (int i = 0; i < out.size(); i++)
            out[i] = std::nan("");
        apply(ip, op, L, out, in);
        for (int i = 0; i < out.size(); i++) {
            if (out[i] != out[i])
                return std::string(opName[op]) + " leaves output entry " + std::to_string(nodeOf(to, i)) + " unwritten";
            if (out[i] != 0.0) {
                int fn = toFine(op) ? nodeOf(to, i) : nodeOf(from, j), cn = toFine(op) ? nodeOf(from, j) : nodeOf(to, i);
                got[{fn, cn}] = out[i];
            }
        }
    }
    for (auto& e : want) {
        auto it = got.find(e.first);
        long double g = it == got.end() ? 0.0L : it->second;
        if (fabsl(g - e.second) > 1e-13L * (1 + fabsl(e.second)))
            return std::string(opName[op]) + ": weight (fine " + std::to_string(e.first.first / fg.ntheta()) + "," +
                   std::to_string(e.first.first % fg.ntheta()) + " <-> coarse " + std::to_string(e.first.second / cg.ntheta()) + "," +
                   std::to_string(e.first.second % cg.ntheta()) + ") = " + std::to_string((double)g) + ", specification " +
                   std::to_string((double)e.second);
    }
    for (auto& e : got)
        if (want.find(e.first) == want.end() && fabsl(e.second) > 1e-13L)
            return std::string(opName[op]) + ": spurious weight (fine " + std::to_string(e.first.first / fg.ntheta()) + "," +
                   std::to_string(e.first.first % fg.ntheta()) + " <-> coarse " + std::to_string(e.first.second / cg.ntheta()) + "," +
                   std::to_string(e.first.second % cg.ntheta()) + ") = " + std::to_string((double)e.second);
    return "";
}

static int tables(const char* file, int threads)
{
    std::ifstream in(file);
    std::string line;
    long n = 0, nfail = 0, nprobe = 0;
    while (std::getline(in, line)) {
        if (line.empty())
            continue;
        n++;
        mj::Value t = mj::parse(line);
        int nr = t["nr"].num(), nt = t["nt"].num();
        std::vector<double> rad(nr), ang(nt + 1);
        rad[0]   = 0.3;
        double M = 0;
        for (int j = 0; j < nt; j++)
            M += t["k"][j].dbl();
        for (int i = 1; i < nr; i++)
            rad[i] = rad[i - 1] + 0.1 * t["h"][i - 1].dbl();
        ang[0] = 0;
        double acc = 0;
        for (int j = 1; j <= nt; j++) {
            acc += t["k"][j - 1].dbl();
            ang[j] = 2 * M_PI * acc / M;
        }
        ang[nt] = 2 * M_PI;
        int ntC  = nt / 2;
        Mat mp = tableOf(t["P"], nt, ntC), mpx = tableOf(t["PX"], nt, ntC), mfi = tableOf(t["FI"], nt, ntC), minj;
        for (int i = 0; i < (nr + 1) / 2; i++)
            for (int j = 0; j < ntC; j++)
                minj[{2 * i * nt + 2 * j, i * ntC + j}] = 1.0;
        std::string fail;
        // every circle/radial split on either level changes which loop handles a node, never the weights
        std::vector<std::optional<double>> fs = {std::nullopt, 0.0, 1e9, rad[nr / 2], rad[1] + 1e-9, rad[nr - 2] - 1e-9};
        std::vector<std::optional<double>> cs = {std::nullopt, 0.0, 1e9, rad[2 * ((nr / 2 + 1) / 2)]};
        for (size_t a = 0; a < fs.size() && fail.empty(); a++)
            for (size_t b = 0; b < cs.size() && fail.empty(); b++) {
                if ((a + b + n) % 3 != 0 && !(a == 0 && b == 0))
                    continue; // a third of the split combinations per instance (rotating), the automatic pair always
                Pair L = makeLevels(rad, ang, fs[a], cs[b]);
                const std::vector<int> tpl{threads, threads}; // the operator keeps a reference
                Interpolation ip(tpl, (n % 2) == 0);
                const std::pair<Op, const Mat*> ops[] = {{P0, &mp}, {P, &mp}, {PX0, &mpx}, {PX, &mpx}, {FI, &mfi}, {R0, &mp}, {R, &mp},
                                                         {RX0, &mpx}, {RX, &mpx}, {INJ, &minj}};
                for (auto& o : ops) {
                    fail = compare(ip, o.first, L, *o.second);
                    nprobe++;
                    if (!fail.empty()) {
                        fail += " [fine circles " + std::to_string(L.fine->grid().numberSmootherCircles()) + ", coarse circles " +
                                std::to_string(L.coarse->grid().numberSmootherCircles()) + "]";
                        break;
                    }
                }
            }
        if (!fail.empty()) {
            nfail++;
            if (nfail <= 25)
                std::cout << "{\"fail\":true,\"nr\":" << nr << ",\"nt\":" << nt << ",\"what\":\"" << mj::escape(fail) << "\",\"h\":"
                          << "\"\"" << "}" << std::endl;
        }
    }
    std::cout << "{\"summary\":true,\"tables\":" << n << ",\"operators_probed\":" << nprobe << ",\"failed\":" << nfail << "}" << std::endl;
    return 0;
}

// grids above the parallel threshold: <P v, w> = <v, R w>, optimised = reference, injection after prolongation = identity
static int large(unsigned seed, int threads)
{
    std::mt19937 gen(seed);
    std::uniform_real_distribution<double> U(0.5, 1.5), V(-1, 1);
    long nfail = 0, n = 0;
    for (int c = 0; c < 3; c++) {
        int nr = 2 * (40 + 8 * c) + 1, nt = 8 * (20 + 4 * c);
        std::vector<double> rad(nr), ang(nt + 1), k(nt / 2);
        rad[0] = 1e-3;
        for (int i = 1; i < nr; i++)
            rad[i] = rad[i - 1] + 0.01 * U(gen);
        double M = 0;
        for (auto& x : k) {
            x = U(gen);
            M += 2 * x;
        }
        double acc = 0;
        ang[0]     = 0;
        for (int j = 1; j <= nt; j++) {
            acc += k[(j - 1) % (nt / 2)];
            ang[j] = 2 * M_PI * acc / M;
        }
        ang[nt] = 2 * M_PI;
        Pair L  = makeLevels(rad, ang, std::nullopt, std::nullopt);
        const std::vector<int> tpl{threads, threads};
        Interpolation ip(tpl, c % 2);
        int NF = L.fine->grid().numberOfNodes(), NC = L.coarse->grid().numberOfNodes();
        Vec v(NC), w(NF), Pv(NF), Pv0(NF), Rw(NC), Rw0(NC), back(NC);
        for (int i = 0; i < NC; i++)
            v[i] = V(gen);
        for (int i = 0; i < NF; i++)
            w[i] = V(gen);
        std::string fail;
        const Op pro[3] = {P, PX, FI}, pro0[3] = {P0, PX0, FI}, res[3] = {R, RX, R}, res0[3] = {R0, RX0, R0};
        for (int o = 0; o < 3 && fail.empty(); o++) {
            apply(ip, pro[o], L, Pv, v);
            apply(ip, pro0[o], L, Pv0, v);
            for (int i = 0; i < NF && fail.empty(); i++)
                if (fabs(Pv[i] - Pv0[i]) > 1e-13)
                    fail = std::string(opName[pro[o]]) + " differs from its reference version at node " + std::to_string(i);
            apply(ip, INJ, L, back, Pv);
            for (int i = 0; i < NC && fail.empty(); i++)
                if (back[i] != v[i])
                    fail = std::string("injection after ") + opName[pro[o]] + " is not the identity";
            if (o < 2) {
                apply(ip, res[o], L, Rw, w);
                apply(ip, res0[o], L, Rw0, w);
                long double a = 0, b = 0, s = 0;
                for (int i = 0; i < NF; i++) {
                    a += (long double)Pv[i] * w[i];
                    s += fabsl((long double)Pv[i] * w[i]);
                }
                for (int i = 0; i < NC; i++) {
                    b += (long double)v[i] * Rw[i];
                    if (fabs(Rw[i] - Rw0[i]) > 1e-12 && fail.empty())
                        fail = std::string(opName[res[o]]) + " differs from its reference version";
                }
                if (fail.empty() && fabsl(a - b) > 1e-12L * s)
                    fail = std::string(opName[res[o]]) + " is not the transpose of " + opName[pro[o]] + ": <Pv,w> - <v,Rw> = " + std::to_string((double)(a - b));
            }
        }
        n++;
        if (!fail.empty()) {
            nfail++;
            std::cout << "{\"fail\":true,\"nr\":" << nr << ",\"nt\":" << nt << ",\"what\":\"" << mj::escape(fail) << "\"}" << std::endl;
        }
    }
    std::cout << "{\"summary\":true,\"tables\":" << n << ",\"failed\":" << nfail << "}" << std::endl;
    return 0;
}

int main(int argc, char** argv)
{
    std::string m = argc > 1 ? argv[1] : "";
    if (m == "tables" && argc > 3)
        return tables(argv[2], atoi(argv[3]));
    if (m == "large" && argc > 3)
        return large((unsigned)atoi(argv[2]), atoi(argv[3]));
    return 2;
}
