// Implementation-vs-implementation run on the SHIPPED geometries and coefficient profiles (C03-C07 beyond the table family):
// random non-uniform grids, level 0 and the coarse level whose cache is derived from the finer one (as setup() does).
// usage: drv_realgeom <what> <seed> <count> <threads>     what = residual | direct | spd | smoother | xsmoother
#include <cmath>
#include <cstring>
#include <iostream>
#include <random>
#include "verif_access.h"

using Vec = Vector<double>;
struct Problem {
    std::unique_ptr<DomainGeometry> geom;
    std::unique_ptr<DensityProfileCoefficients> coeff;
    std::string name;
};
static Problem makeProblem(int g, int a, bool gyro, double Rmax)
{
    Problem p;
    const double aj = 0.66 * Rmax;
    switch (g) {
    case 0: p.geom = std::make_unique<CircularGeometry>(Rmax); p.name = "Circular"; break;
    case 1: p.geom = std::make_unique<ShafranovGeometry>(Rmax, 0.3, 0.2); p.name = "Shafranov"; break;
    case 2: p.geom = std::make_unique<CzarnyGeometry>(Rmax, 0.3, 1.4); p.name = "Czarny"; break;
    default: p.geom = std::make_unique<CulhamGeometry>(Rmax); p.name = "Culham"; break;
    }
    switch (a) {
    case 0: p.coeff = std::make_unique<PoissonCoefficients>(Rmax, aj); p.name += "/Poisson"; break;
    case 1:
        if (gyro) p.coeff = std::make_unique<SonnendruckerGyroCoefficients>(Rmax, aj); else p.coeff = std::make_unique<SonnendruckerCoefficients>(Rmax, aj);
        p.name += gyro ? "/SonnendruckerGyro" : "/Sonnendrucker";
        break;
    case 2:
        if (gyro) p.coeff = std::make_unique<ZoniGyroCoefficients>(Rmax, aj); else p.coeff = std::make_unique<ZoniCoefficients>(Rmax, aj);
        p.name += gyro ? "/ZoniGyro" : "/Zoni";
        break;
    default:
        if (gyro) p.coeff = std::make_unique<ZoniShiftedGyroCoefficients>(Rmax, aj); else p.coeff = std::make_unique<ZoniShiftedCoefficients>(Rmax, aj);
        p.name += gyro ? "/ZoniShiftedGyro" : "/ZoniShifted";
        break;
    }
    return p;
}

struct Lv {
    std::unique_ptr<Level> l0, l1;
};
static Lv levels(const std::vector<double>& rad, const std::vector<double>& ang, Problem& P, bool cDP, bool cDG)
{
    Lv L;
    auto g0 = std::make_unique<PolarGrid>(rad, ang);
    auto g1 = std::make_unique<PolarGrid>(coarseningGrid(*g0));
    auto c0 = std::make_unique<LevelCache>(*g0, *P.coeff, *P.geom, cDP, cDG);
    L.l0    = std::make_unique<Level>(0, std::move(g0), std::move(c0), ExtrapolationType::COMBINED, true);
    auto c1 = std::make_unique<LevelCache>(*L.l0, *g1); // derived from the finer level, as setup() does
    L.l1    = std::make_unique<Level>(1, std::move(g1), std::move(c1), ExtrapolationType::COMBINED, true);
    return L;
}
static double maxabs(const Vec& v)
{
    double m = 0;
    for (int i = 0; i < v.size(); i++)
        m = std::max(m, fabs(v[i]));
    return m;
}

int main(int argc, char** argv)
{
    if (argc < 5)
        return 2;
    std::string what = argv[1];
    unsigned seed    = atoi(argv[2]);
    int count = atoi(argv[3]), threads = atoi(argv[4]);
    const auto give = StencilDistributionMethod::CPU_GIVE, take = StencilDistributionMethod::CPU_TAKE;
    long nfail = 0, ncase = 0, nsplit = 0;
    for (int c = 0; c < count; c++) {
        std::mt19937 gen(seed * 1000003u + c);
        std::uniform_real_distribution<double> U(-1, 1);
        int g = c % 4, a = (c / 4) % 4;
        bool gyro = (c / 16) % 2, dir = (c / 2) % 2;
        const double Rmax = 1.3, R0 = dir ? 0.1 : 1e-4;
        Problem P = makeProblem(g, a, gyro, Rmax);
        // random non-uniform grid whose every second node is a midpoint (as the generator produces), 2 levels
        int nrc = 5 + (int)(gen() % 4), ntq = 1 + (int)(gen() % 3);
        if (c % 3 == 2) { // many more angles than radii: the circle/radial split of the coarse level falls well below half of the fine one
            nrc = 5;
            ntq = 4 + (int)(gen() % 3);
        } // coarse radii; quarter of the coarse angular cells
        std::vector<double> cr(nrc), rad, half, ang;
        cr[0] = R0;
        for (int i = 1; i < nrc; i++)
            cr[i] = cr[i - 1] + 0.5 + 0.5 * fabs(U(gen));
        for (int i = 0; i < nrc; i++)
            cr[i] = R0 + (cr[i] - R0) / (cr[nrc - 1] - R0) * (Rmax - R0);
        cr[nrc - 1] = Rmax;
        for (int i = 0; i < nrc; i++) {
            rad.push_back(cr[i]);
            if (i + 1 < nrc)
                rad.push_back(0.5 * (cr[i] + cr[i + 1]));
        }
        for (int j = 0; j < 2 * ntq; j++)
            half.push_back(0.7 + 0.6 * fabs(U(gen)));
        // coarse cells: the half pattern twice (antipodal partners); each coarse cell is split into two equal fine cells
        ang.push_back(0);
        double acc = 0;
        for (int rep = 0; rep < 2; rep++)
            for (double h : half) {
                ang.push_back(acc + 0.5 * h);
                acc += h;
                ang.push_back(acc);
            }
        for (auto& t : ang)
            t = t / acc * 2 * M_PI;
        ang.back() = 2 * M_PI;
        std::string fail, where = P.name + (dir ? " DirBC" : " across-origin") + " grid " + std::to_string(rad.size()) + "x" + std::to_string(ang.size() - 1);
        try {
            Lv T = levels(rad, ang, P, true, true);
            if (2 * T.l1->grid().numberSmootherCircles() < T.l0->grid().numberSmootherCircles())
                nsplit++;
            for (int lvl = 0; lvl < 2 && fail.empty(); lvl++) {
                Level& Lt = lvl == 0 ? *T.l0 : *T.l1;
                const PolarGrid& grid = Lt.grid();
                int N = grid.numberOfNodes();
                std::string lv = " level " + std::to_string(lvl);
                if (what == "residual") {
                    // coarse cache derived from the finer level = fresh evaluation at the coarse nodes
                    if (lvl == 1) {
                        LevelCache fresh(grid, *P.coeff, *P.geom, true, true);
                        const LevelCache& der = Lt.levelCache();
                        for (int i = 0; i < N && fail.empty(); i++)
                            if (der.arr()[i] != fresh.arr()[i] || der.att()[i] != fresh.att()[i] || der.art()[i] != fresh.art()[i] || der.detDF()[i] != fresh.detDF()[i])
                                fail = "coarse cache (derived from the finer level) differs from a fresh evaluation at node " + std::to_string(i);
                        for (int i = 0; i < grid.nr() && fail.empty(); i++)
                            if (der.coeff_beta()[i] != fresh.coeff_beta()[i])
                                fail = "coarse coeff_beta differs from a fresh evaluation";
                    }
                    Vec u(N), f(N), rT(N);
                    for (int i = 0; i < N; i++) {
                        u[i] = U(gen);
                        f[i] = 10 * U(gen);
                    }
                    Lt.initializeResidual(*P.geom, *P.coeff, dir, threads, take);
                    Lt.computeResidual(rT, f, u);
                    double sc = maxabs(rT) + maxabs(f);
                    const bool flags[4][2] = {{true, true}, {true, false}, {false, true}, {false, false}};
                    for (int v = 0; v < 4 && fail.empty(); v++) {
                        Lv G = levels(rad, ang, P, flags[v][0], flags[v][1]);
                        Level& Lg = lvl == 0 ? *G.l0 : *G.l1;
                        Lg.initializeResidual(*P.geom, *P.coeff, dir, threads, give);
                        Vec rG(N);
                        Lg.computeResidual(rG, f, u);
                        // entries reach 1e4..1e8 near the origin: compare relative to the terms
                        Vec au(N), zero(N);
                        assign(zero, 0.0);
                        for (int i = 0; i < N && fail.empty(); i++)
                            if (!(fabs(rG[i] - rT[i]) <= 1e-11 * (fabs(rT[i]) + sc)))
                                fail = "ResidualGive (caches " + std::to_string(flags[v][0]) + std::to_string(flags[v][1]) + ") and ResidualTake differ at node " + std::to_string(i) + " by " + std::to_string(fabs(rG[i] - rT[i]));
                    }
                }
                else if (what == "direct") {
                    Vec b(N), xg(N), xt(N), r(N);
                    for (int i = 0; i < N; i++)
                        b[i] = U(gen) * pow(10.0, 4 * U(gen));
                    xg = b;
                    xt = b;
                    Lt.initializeDirectSolver(*P.geom, *P.coeff, dir, threads, give);
                    Lt.directSolveInPlace(xg);
                    Lt.initializeDirectSolver(*P.geom, *P.coeff, dir, threads, take);
                    Lt.directSolveInPlace(xt);
                    Lt.initializeResidual(*P.geom, *P.coeff, dir, threads, take);
                    Lt.computeResidual(r, b, xg); // independent residual operator (other strategy)
                    // scale of the terms: |A| |x| estimated by applying the operator to |x| is not available; use a probe
                    Vec ax(N), zero(N);
                    assign(zero, 0.0);
                    Lt.computeResidual(ax, zero, xg);
                    double scale = maxabs(b) + maxabs(ax);
                    double big = 0;
                    for (int i = 0; i < N; i++)
                        big = std::max(big, fabs(xg[i]));
                    if (!(maxabs(r) <= 1e-7 * scale + 1e-9 * big * 1e4))
                        fail = "direct solution has residual " + std::to_string(maxabs(r)) + " (scale " + std::to_string(scale) + ")" + lv;
                    for (int i = 0; i < N && fail.empty(); i++)
                        if (!(fabs(xg[i] - xt[i]) <= 1e-8 * (big + 1e-300)))
                            fail = "give and take direct solutions differ at node " + std::to_string(i);
                }
                else if (what == "spd") {
                    Lt.initializeResidual(*P.geom, *P.coeff, dir, threads, take);
                    Vec x(N), y(N), ax(N), ay(N), zero(N);
                    assign(zero, 0.0);
                    auto interior = [&](int idx) {
                        int ir, it;
                        grid.multiIndex(idx, ir, it);
                        return !(ir == grid.nr() - 1 || (ir == 0 && dir));
                    };
                    for (int rep = 0; rep < 3 && fail.empty(); rep++) {
                        for (int i = 0; i < N; i++) {
                            x[i] = interior(i) ? U(gen) : 0.0;
                            y[i] = interior(i) ? U(gen) : 0.0;
                        }
                        Lt.computeResidual(ax, zero, x); // = -A x
                        Lt.computeResidual(ay, zero, y);
                        long double xAy = 0, yAx = 0, xAx = 0, sc = 0;
                        for (int i = 0; i < N; i++)
                            if (interior(i)) {
                                xAy -= (long double)x[i] * ay[i];
                                yAx -= (long double)y[i] * ax[i];
                                xAx -= (long double)x[i] * ax[i];
                                sc += fabsl((long double)x[i] * ay[i]);
                            }
                        if (!(fabsl(xAy - yAx) <= 1e-11L * sc))
                            fail = "<Ax,y> - <x,Ay> = " + std::to_string((double)(xAy - yAx)) + lv;
                        if (!(xAx > 0))
                            fail = "<Ax,x> = " + std::to_string((double)xAx) + " not positive" + lv;
                    }
                }
                else if (what == "smoother" || what == "xsmoother") {
                    bool ex = what == "xsmoother";
                    if (ex && lvl == 1)
                        continue;
                    if (grid.numberSmootherCircles() < (ex ? 3 : 2) || grid.lengthSmootherRadial() < 3)
                        continue;
                    Vec f(N), u(N), ug(N), ut(N), tmp(N), r(N);
                    for (int i = 0; i < N; i++) {
                        f[i] = U(gen);
                        u[i] = U(gen);
                    }
                    for (int meth = 0; meth < 2; meth++) {
                        Vec& x = meth ? ut : ug;
                        x      = u;
                        if (ex) {
                            Lt.initializeExtrapolatedSmoothing(*P.geom, *P.coeff, dir, threads, meth ? take : give);
                            Lt.extrapolatedSmoothing(x, f, tmp);
                        }
                        else {
                            Lt.initializeSmoothing(*P.geom, *P.coeff, dir, threads, meth ? take : give);
                            Lt.smoothing(x, f, tmp);
                        }
                    }
                    double sc = maxabs(ug) + 1e-300;
                    for (int i = 0; i < N && fail.empty(); i++)
                        if (!(fabs(ug[i] - ut[i]) <= 1e-9 * sc))
                            fail = std::string(ex ? "extrapolated " : "") + "smoother give and take differ at node " + std::to_string(i) + lv;
                    // residual (independent operator) vanishes on the colour updated last: white radial lines
                    Lt.initializeResidual(*P.geom, *P.coeff, dir, threads, take);
                    Lt.computeResidual(r, f, ug);
                    Vec au(N), zero(N);
                    assign(zero, 0.0);
                    Lt.computeResidual(au, zero, ug);
                    double rs = maxabs(f) + maxabs(au);
                    for (int it = 1; it < grid.ntheta() && fail.empty(); it += 2)
                        for (int ir = grid.numberSmootherCircles(); ir < grid.nr() && fail.empty(); ir++) {
                            if (ex && (ir % 2 == 0) && (it % 2 == 0))
                                continue;
                            if (!(fabs(r[grid.index(ir, it)]) <= 1e-9 * rs))
                                fail = "residual " + std::to_string(r[grid.index(ir, it)]) + " on a white radial line (updated last) at (" + std::to_string(ir) + "," + std::to_string(it) + ")" + lv;
                        }
                    if (ex)
                        for (int ir = 0; ir < grid.nr() && fail.empty(); ir += 2)
                            for (int it = 0; it < grid.ntheta(); it += 2)
                                if (memcmp(&ug[grid.index(ir, it)], &u[grid.index(ir, it)], sizeof(double)) != 0) {
                                    fail = "coarse node moved by the extrapolated smoother";
                                    break;
                                }
                    // Dirichlet nodes carry the boundary data after a (full) sweep
                    if (!ex)
                        for (int it = 0; it < grid.ntheta() && fail.empty(); it++)
                            if (ug[grid.index(grid.nr() - 1, it)] != f[grid.index(grid.nr() - 1, it)] || (dir && ug[grid.index(0, it)] != f[grid.index(0, it)]))
                                fail = "Dirichlet node does not carry the boundary data after the sweep" + lv;
                }
                ncase++;
            }
        }
        catch (const std::exception& e) {
            fail = std::string("exception: ") + e.what();
        }
        if (!fail.empty()) {
            nfail++;
            if (nfail <= 20)
                std::cout << "{\"fail\":true,\"case\":" << c << ",\"where\":\"" << where << "\",\"what\":\"" << fail << "\"}" << std::endl;
        }
    }
    std::cout << "{\"summary\":true,\"cases\":" << ncase << ",\"coarse_split_below_half\":" << nsplit << ",\"failed\":" << nfail << "}" << std::endl;
    return 0;
}
