// Replay driver for spec/LinAlgObjects.tla (C15) -- header-only part of GMGPolar.
// usage: hdr_linalg <Class> <cases.ndjson>     Class in Vector Diag COO CSR LU Tridiag
// Each input line is one TLC-generated history (JSON array of steps); every step carries the IDEAL
// abstract value the model expects for every object after that step.  The driver executes the step on
// real objects and compares the projection of every live object with the model.  Output: one JSON
// line per failing case and a final summary line.
#include <LinearAlgebra/vector.h>
#include <LinearAlgebra/coo_matrix.h>
#include <LinearAlgebra/csr_matrix.h>
#include <LinearAlgebra/diagonalSolver.h>
#include <LinearAlgebra/sparseLUSolver.h>
#include <LinearAlgebra/symmetricTridiagonalSolver.h>

#include <cmath>
#include <cstdio>
#include <cstdlib>
#include <fstream>
#include <iostream>
#include <memory>
#include <string>
#include <vector>
#include "mini_json.h"

static int Rows(int s) { return s <= 2 ? 2 : 3; }
static int Nnz(int s) { return s == 1 ? 3 : s == 2 ? 4 : s == 3 ? 4 : 5; }
static long g_skip = 0;  // cases to skip (restart after a crash)
static FILE* g_progress = nullptr;
static int g_scale = 1; // thorough tier: model shapes are mapped to larger real dimensions

static int dimOf(int s) { return Rows(s) * g_scale + (g_scale > 1 ? (s % 2) : 0); }

// ---------------------------------------------------------------------------------------------
// dense reference
using Dense = std::vector<std::vector<long double>>;
static std::vector<long double> denseSolve(Dense A, std::vector<long double> b)
{
    int n = (int)A.size();
    for (int k = 0; k < n; k++) {
        int p = k;
        for (int i = k + 1; i < n; i++)
            if (fabsl(A[i][k]) > fabsl(A[p][k]))
                p = i;
        std::swap(A[k], A[p]);
        std::swap(b[k], b[p]);
        for (int i = k + 1; i < n; i++) {
            long double f = A[i][k] / A[k][k];
            for (int j = k; j < n; j++)
                A[i][j] -= f * A[k][j];
            b[i] -= f * b[k];
        }
    }
    for (int i = n - 1; i >= 0; i--) {
        for (int j = i + 1; j < n; j++)
            b[i] -= A[i][j] * b[j];
        b[i] /= A[i][i];
    }
    return b;
}
static double val(int s, int v, int i) { return 1.0 + 0.37 * i + 0.11 * s + 0.5 * v + ((i + v) % 3) * 0.25; }
static std::vector<long double> probeRhs(int n)
{
    std::vector<long double> b(n);
    for (int i = 0; i < n; i++)
        b[i] = 1.0 + 0.3 * i - 0.05 * i * i;
    return b;
}
static bool close(const std::vector<long double>& ref, const double* x, std::string& why)
{
    long double nrm = 0;
    for (auto r : ref)
        nrm = std::max(nrm, fabsl(r));
    for (size_t i = 0; i < ref.size(); i++)
        if (!(fabsl(ref[i] - x[i]) <= 1e-10L * (1 + nrm))) {
            char buf[200];
            snprintf(buf, sizeof buf, "solution[%zu]=%.17g expected %.17Lg", i, x[i], ref[i]);
            why = buf;
            return false;
        }
    return true;
}

struct Abs {
    int s = 0, v = 0;
    bool cyc = true, sym = false;
};

// ---------------------------------------------------------------------------------------------
// per-class traits: construct(s,v,path), setEntries(v), observe(expected abs) -> "" or complaint
template <class T>
struct Tr;

template <>
struct Tr<Vector<double>> {
    using T = Vector<double>;
    static std::unique_ptr<T> make(int s, int v, int path)
    {
        int n = dimOf(s);
        if (path % 2 == 0) {
            auto p = std::make_unique<T>(n);
            for (int i = 0; i < n; i++)
                (*p)[i] = val(s, v, i);
            return p;
        }
        std::vector<double> init(n);
        for (int i = 0; i < n; i++)
            init[i] = val(s, v, i);
        return std::make_unique<T>(init);
    }
    static void set(T& o, int s, int v)
    {
        for (int i = 0; i < o.size(); i++)
            o[i] = val(s, v, i);
    }
    static std::string observe(const T& o, const Abs& a)
    {
        int n = a.s ? dimOf(a.s) : 0;
        if (o.size() != n)
            return "size " + std::to_string(o.size()) + " expected " + std::to_string(n);
        if ((o.end() - o.begin()) != n)
            return "end()-begin() != size";
        for (int i = 0; i < n; i++)
            if (o[i] != val(a.s, a.v, i))
                return "entry " + std::to_string(i) + " differs";
        return "";
    }
    static std::string solve(T&, const Abs&) { return ""; }
};

template <>
struct Tr<DiagonalSolver<double>> {
    using T = DiagonalSolver<double>;
    static std::unique_ptr<T> make(int s, int v, int)
    {
        auto p = std::make_unique<T>(dimOf(s));
        set(*p, s, v);
        return p;
    }
    static void set(T& o, int s, int v)
    {
        for (int i = 0; i < o.rows(); i++)
            o.diagonal(i) = val(s, v, i);
    }
    static std::string observe(const T& o, const Abs& a)
    {
        int n = a.s ? dimOf(a.s) : 0;
        if (o.rows() != n || o.columns() != n)
            return "rows " + std::to_string(o.rows()) + " expected " + std::to_string(n);
        for (int i = 0; i < n; i++)
            if (o.diagonal(i) != val(a.s, a.v, i))
                return "diagonal " + std::to_string(i) + " differs";
        return "";
    }
    static std::string solve(T& o, const Abs& a)
    {
        int n = dimOf(a.s);
        auto b = probeRhs(n);
        std::vector<double> x(b.begin(), b.end());
        o.solveInPlace(x.data());
        for (int i = 0; i < n; i++)
            b[i] /= val(a.s, a.v, i);
        std::string why;
        return close(b, x.data(), why) ? "" : why;
    }
};

// sparse pattern of shape s: nnz entries (row, col) in row-major order; values from val()
static std::vector<std::tuple<int, int, double>> pattern(int s, int v, bool lu)
{
    int n = dimOf(s), cols = lu ? n : n + (s % 2);
    std::vector<std::tuple<int, int, double>> e;
    int extra = Nnz(s) * g_scale - n; // off-diagonal entries beyond the diagonal
    if (g_scale > 1)
        extra = n; // larger instances: one off-diagonal per row
    int k = 0;
    for (int i = 0; i < n; i++) {
        // unsorted columns inside a row on purpose: off-diagonal first when it lies to the right
        int oc = (i + 1 + (s % 2)) % cols;
        if (oc == i)
            oc = (i + 1) % cols;
        bool off = extra > 0;
        if (off && oc > i) {
            e.emplace_back(i, oc, 0.3 * val(s, v, k++) * ((i % 2) ? -1 : 1));
            extra--;
        }
        e.emplace_back(i, i, 3.0 + val(s, v, k++));
        if (off && oc < i) {
            e.emplace_back(i, oc, 0.3 * val(s, v, k++) * ((i % 2) ? -1 : 1));
            extra--;
        }
    }
    return e;
}

template <>
struct Tr<SparseMatrixCOO<double>> {
    using T = SparseMatrixCOO<double>;
    static std::unique_ptr<T> make(int s, int v, int path)
    {
        auto e = pattern(s, v, false);
        int n = dimOf(s), cols = n + (s % 2);
        if (path % 2 == 0)
            return std::make_unique<T>(n, cols, e);
        auto p = std::make_unique<T>(n, cols, (int)e.size());
        for (int i = 0; i < (int)e.size(); i++) {
            p->row_index(i) = std::get<0>(e[i]);
            p->col_index(i) = std::get<1>(e[i]);
            p->value(i)     = std::get<2>(e[i]);
        }
        return p;
    }
    static void set(T& o, int s, int v)
    {
        auto e = pattern(s, v, false);
        for (int i = 0; i < o.non_zero_size(); i++)
            o.value(i) = std::get<2>(e[i]);
    }
    static std::string observe(const T& o, const Abs& a)
    {
        if (a.s == 0) {
            if (o.rows() != 0 || o.columns() != 0 || o.non_zero_size() != 0)
                return "empty object reports rows/cols/nnz " + std::to_string(o.rows()) + "/" +
                       std::to_string(o.columns()) + "/" + std::to_string(o.non_zero_size());
            return o.is_symmetric() == a.sym ? "" : "is_symmetric flag differs";
        }
        auto e = pattern(a.s, a.v, false);
        int n = dimOf(a.s), cols = n + (a.s % 2);
        if (o.rows() != n || o.columns() != cols || o.non_zero_size() != (int)e.size())
            return "shape " + std::to_string(o.rows()) + "x" + std::to_string(o.columns()) + " nnz " +
                   std::to_string(o.non_zero_size());
        if (o.is_symmetric() != a.sym)
            return "is_symmetric flag differs";
        for (int i = 0; i < (int)e.size(); i++)
            if (o.row_index(i) != std::get<0>(e[i]) || o.col_index(i) != std::get<1>(e[i]) ||
                o.value(i) != std::get<2>(e[i]))
                return "triplet " + std::to_string(i) + " differs";
        return "";
    }
    static std::string solve(T&, const Abs&) { return ""; }
};

static std::unique_ptr<SparseMatrixCSR<double>> makeCSR(int s, int v, int path, bool lu)
{
    using T = SparseMatrixCSR<double>;
    auto e = pattern(s, v, lu);
    int n = dimOf(s), cols = lu ? n : n + (s % 2);
    if (path % 3 == 0)
        return std::make_unique<T>(n, cols, e);
    std::vector<int> start(n + 1, 0), ci;
    std::vector<double> va;
    for (auto& t : e) {
        start[std::get<0>(t) + 1]++;
        ci.push_back(std::get<1>(t));
        va.push_back(std::get<2>(t));
    }
    for (int i = 0; i < n; i++)
        start[i + 1] += start[i];
    if (path % 3 == 1)
        return std::make_unique<T>(n, cols, va, ci, start);
    auto p = std::make_unique<T>(n, cols, [&](int i) { return start[i + 1] - start[i]; });
    for (int i = 0; i < n; i++)
        for (int k = 0; k < p->row_nz_size(i); k++) {
            p->row_nz_index(i, k) = ci[start[i] + k];
            p->row_nz_entry(i, k) = va[start[i] + k];
        }
    return p;
}

template <>
struct Tr<SparseMatrixCSR<double>> {
    using T = SparseMatrixCSR<double>;
    static std::unique_ptr<T> make(int s, int v, int path) { return makeCSR(s, v, path, false); }
    static void set(T& o, int s, int v)
    {
        auto e = pattern(s, v, false);
        int k  = 0;
        for (int i = 0; i < o.rows(); i++)
            for (int j = 0; j < o.row_nz_size(i); j++)
                o.row_nz_entry(i, j) = std::get<2>(e[k++]);
    }
    static std::string observe(const T& o, const Abs& a)
    {
        if (a.s == 0) {
            if (o.rows() != 0 || o.columns() != 0 || o.non_zero_size() != 0)
                return "empty object reports rows/cols/nnz " + std::to_string(o.rows()) + "/" +
                       std::to_string(o.columns()) + "/" + std::to_string(o.non_zero_size());
            return "";
        }
        auto e = pattern(a.s, a.v, false);
        int n = dimOf(a.s), cols = n + (a.s % 2);
        if (o.rows() != n || o.columns() != cols || o.non_zero_size() != (int)e.size())
            return "shape " + std::to_string(o.rows()) + "x" + std::to_string(o.columns()) + " nnz " +
                   std::to_string(o.non_zero_size());
        int k = 0;
        for (int i = 0; i < n; i++) {
            int cnt = 0;
            for (auto& t : e)
                cnt += std::get<0>(t) == i;
            if (o.row_nz_size(i) != cnt)
                return "row " + std::to_string(i) + " has " + std::to_string(o.row_nz_size(i)) + " entries";
            for (int j = 0; j < cnt; j++, k++)
                if (o.row_nz_index(i, j) != std::get<1>(e[k]) || o.row_nz_entry(i, j) != std::get<2>(e[k]))
                    return "entry (" + std::to_string(i) + "," + std::to_string(j) + ") differs";
        }
        return "";
    }
    static std::string solve(T&, const Abs&) { return ""; }
};

template <>
struct Tr<SparseLUSolver<double>> {
    using T = SparseLUSolver<double>;
    static std::unique_ptr<T> make(int s, int v, int path)
    {
        auto A = makeCSR(s, v, path, true);
        return std::make_unique<T>(*A);
    }
    static void set(T&, int, int) {}
    static std::string check(const T& o, const Abs& a, bool viaVector)
    {
        int n = dimOf(a.s);
        Dense A(n, std::vector<long double>(n, 0));
        for (auto& t : pattern(a.s, a.v, true))
            A[std::get<0>(t)][std::get<1>(t)] += std::get<2>(t);
        auto b   = probeRhs(n);
        auto ref = denseSolve(A, b);
        std::string why;
        if (viaVector) {
            Vector<double> x(n);
            for (int i = 0; i < n; i++)
                x[i] = (double)b[i];
            o.solveInPlace(x);
            return close(ref, x.begin(), why) ? "" : why;
        }
        std::vector<double> x(b.begin(), b.end());
        o.solveInPlace(x.data());
        return close(ref, x.data(), why) ? "" : why;
    }
    // solveInPlace is const: the observation is the solve itself
    static std::string observe(const T& o, const Abs& a) { return a.s == 0 ? "" : check(o, a, false); }
    static std::string solve(T& o, const Abs& a) { return check(o, a, true); }
};

template <>
struct Tr<SymmetricTridiagonalSolver<double>> {
    using T = SymmetricTridiagonalSolver<double>;
    static double dg(int s, int v, int i) { return 4.0 + 0.1 * i + 0.3 * v + 0.05 * s; }
    static double sb(int s, int v, int i) { return ((i + v) % 2 ? -1.0 : 1.0) * (1.0 + 0.05 * i + 0.02 * s); }
    static double cr(int s, int v) { return (v % 2 ? 0.5 : -0.7) - 0.01 * s; }
    static std::unique_ptr<T> make(int s, int v, int)
    {
        auto p = std::make_unique<T>(dimOf(s));
        set(*p, s, v);
        return p;
    }
    static void set(T& o, int s, int v)
    {
        int n = o.rows();
        for (int i = 0; i < n; i++)
            o.main_diagonal(i) = dg(s, v, i);
        for (int i = 0; i < n - 1; i++)
            o.sub_diagonal(i) = sb(s, v, i);
        if (o.is_cyclic())
            o.cyclic_corner_element() = cr(s, v);
        else { // the corner is stored even when the flag is off; set it through a flag round trip
            o.is_cyclic(true);
            o.cyclic_corner_element() = cr(s, v);
            o.is_cyclic(false);
        }
    }
    static Dense dense(const Abs& a)
    {
        int n = dimOf(a.s);
        Dense A(n, std::vector<long double>(n, 0));
        for (int i = 0; i < n; i++)
            A[i][i] = dg(a.s, a.v, i);
        for (int i = 0; i < n - 1; i++) {
            A[i][i + 1] += sb(a.s, a.v, i);
            A[i + 1][i] += sb(a.s, a.v, i);
        }
        if (a.cyc) {
            A[0][n - 1] += cr(a.s, a.v);
            A[n - 1][0] += cr(a.s, a.v);
        }
        return A;
    }
    static std::string solve(T& o, const Abs& a)
    {
        int n  = dimOf(a.s);
        auto b = probeRhs(n);
        std::vector<double> x(b.begin(), b.end()), t1(n), t2(n);
        o.solveInPlace(x.data(), t1.data(), t2.data());
        std::string why;
        return close(denseSolve(dense(a), b), x.data(), why) ? "" : why;
    }
    // observation without disturbing the object: shape and flag through the accessors, and the system it
    // solves through a copy (the copy is the operation under test, so this is a C15 observation, too)
    static std::string observe(const T& o, const Abs& a)
    {
        int n = a.s ? dimOf(a.s) : 0;
        if (o.rows() != n || o.columns() != n)
            return "rows " + std::to_string(o.rows()) + " expected " + std::to_string(n);
        if (o.is_cyclic() != a.cyc)
            return "is_cyclic flag differs";
        if (n < 2)
            return "";
        T clone(o);
        std::string r = solve(clone, a);
        return r.empty() ? "" : "copy of the object solves another system: " + r;
    }
};

// ---------------------------------------------------------------------------------------------
template <class T>
static int runClass(const std::string& file)
{
    std::ifstream in(file);
    std::string line;
    long ncase = 0, nfail = 0, nsteps = 0;
    while (std::getline(in, line)) {
        if (line.empty())
            continue;
        ncase++;
        if (ncase <= g_skip)
            continue;
        if (g_progress) { // lets the caller attribute a crash to a case
            rewind(g_progress);
            fprintf(g_progress, "%ld\n", ncase);
            fflush(g_progress);
        }
        mj::Value c = mj::parse(line);
        const auto& steps = c.arr();
        int nobj          = (int)steps[0]["abs"].arr().size();
        std::vector<std::unique_ptr<T>> slot;
        std::vector<Abs> was(nobj);
        for (int o = 0; o < nobj; o++)
            slot.push_back(std::make_unique<T>());
        std::string fail;
        int failStep = -1;
        for (size_t k = 0; k < steps.size() && fail.empty(); k++) {
            const auto& st  = steps[k];
            std::string act = st["a"].str();
            int d = st["d"].num() - 1, s = st["s"].num() - 1, x = st["x"].num(), y = st["y"].num();
            std::vector<Abs> exp(nobj);
            for (int o = 0; o < nobj; o++) {
                const auto& a = st["abs"].arr()[o];
                exp[o].s      = a["s"].num();
                exp[o].v      = a["v"].num();
                exp[o].cyc    = a["cyc"].boolean();
                exp[o].sym    = a["sym"].boolean();
            }
            nsteps++;
            try {
                if (act == "DC")
                    slot[d] = std::make_unique<T>();
                else if (act == "CT")
                    slot[d] = Tr<T>::make(x, y, (int)(ncase + k));
                else if (act == "SE")
                    Tr<T>::set(*slot[d], was[d].s, x);
                else if (act == "SO")
                    fail = Tr<T>::solve(*slot[d], was[d]);
                else if (act == "CC")
                    slot[d] = std::make_unique<T>(*slot[s]);
                else if (act == "CA")
                    *slot[d] = *slot[s];
                else if (act == "MC")
                    slot[d] = std::make_unique<T>(std::move(*slot[s]));
                else if (act == "MA")
                    *slot[d] = std::move(*slot[s]);
                else if (act == "CY") {
                    if constexpr (std::is_same_v<T, SymmetricTridiagonalSolver<double>>)
                        slot[d]->is_cyclic(x != 0);
                }
                else if (act == "SY") {
                    if constexpr (std::is_same_v<T, SparseMatrixCOO<double>>)
                        slot[d]->is_symmetric(x != 0);
                }
                else
                    fail = "unknown action " + act;
                if (!fail.empty())
                    fail = act + ": " + fail;
                for (int o = 0; o < nobj && fail.empty(); o++) {
                    std::string r = Tr<T>::observe(*slot[o], exp[o]);
                    if (!r.empty())
                        fail = "after " + act + " object " + std::to_string(o + 1) +
                               (o == d ? " (destination)" : o == s ? " (source)" : " (bystander)") + ": " + r;
                }
            }
            catch (const std::exception& e) {
                fail = act + " threw " + e.what();
            }
            if (!fail.empty())
                failStep = (int)k;
            was = exp;
        }
        if (!fail.empty()) {
            nfail++;
            if (nfail <= 200)
                std::cout << "{\"fail\":true,\"case\":" << ncase << ",\"step\":" << failStep << ",\"act\":\""
                          << steps[failStep]["a"].str() << "\",\"what\":\"" << mj::escape(fail)
                          << "\",\"hist\":" << line << "}\n";
        }
    }
    std::cout << "{\"summary\":true,\"cases\":" << ncase << ",\"steps\":" << nsteps << ",\"failed\":" << nfail << "}\n";
    return 0;
}

int main(int argc, char** argv)
{
    if (argc < 3) {
        fprintf(stderr, "usage: %s Class cases.ndjson [scale]\n", argv[0]);
        return 2;
    }
    std::string cls = argv[1];
    if (argc > 3)
        g_scale = atoi(argv[3]);
    if (argc > 4)
        g_skip = atol(argv[4]);
    g_progress = fopen((std::string(argv[2]) + ".progress").c_str(), "w");
    if (cls == "Vector")
        return runClass<Vector<double>>(argv[2]);
    if (cls == "Diag")
        return runClass<DiagonalSolver<double>>(argv[2]);
    if (cls == "COO")
        return runClass<SparseMatrixCOO<double>>(argv[2]);
    if (cls == "CSR")
        return runClass<SparseMatrixCSR<double>>(argv[2]);
    if (cls == "LU")
        return runClass<SparseLUSolver<double>>(argv[2]);
    if (cls == "Tridiag")
        return runClass<SymmetricTridiagonalSolver<double>>(argv[2]);
    return 2;
}
