// Term interpreter + single-cycle replay for spec/Cycle.tla (C10, C09 start-up).
// usage: drv_cycle <cases.ndjson>
// A case: {"id":..,"base":[cli args],"cfg":{L,nu1,nu2,kind,ext,xs,fmg,its,fkind},"term":<term>,"defs":[{"p":path,"d":term}],"start":"random"|"exact"}
// The real private cycle (or the FMG start-up) is run once on a GMGPolar object whose scratch vectors are poisoned with
// NaN; the mathematical term printed by TLC is evaluated with the PUBLIC operators of an independently set up object and
// the two vectors are compared.
#include <cmath>
#include <cstring>
#include <fstream>
#include <iostream>
#include <limits>
#include <map>
#include <random>
#include "verif_access.h"
#include "mini_json.h"

using Vec = Vector<double>;
using A   = GMGPolarVerifAccess;

static std::unique_ptr<GMGPolar> make(const mj::Value& c, bool reference)
{
    std::vector<std::string> args = {"drv"};
    for (const auto& a : c["base"].arr())
        args.push_back(a.str());
    std::vector<char*> argv;
    for (auto& s : args)
        argv.push_back(s.data());
    auto g = std::make_unique<GMGPolar>();
    g->setParameters((int)argv.size(), argv.data());
    const auto& k = c["cfg"];
    g->verbose(0);
    g->maxLevels(k["L"].num());
    g->preSmoothingSteps(k["nu1"].num());
    g->postSmoothingSteps(k["nu2"].num());
    std::string kind = k["kind"].str(), fkind = k["fkind"].str();
    auto kk          = [](const std::string& s) { return s == "V" ? 0 : s == "W" ? 1 : 2; };
    g->multigridCycle(static_cast<MultigridCycleType>(kk(kind)));
    g->FMG(k["fmg"].boolean());
    g->FMG_iterations(k["its"].num());
    g->FMG_cycle(static_cast<MultigridCycleType>(kk(fkind)));
    bool ext = k["ext"].boolean(), xs = k["xs"].boolean();
    // the reference object owns both smoothers; the object under test is configured as a user would
    // every second extrapolated case runs the object under test in the COMBINED strategy, with the smoother mode set as the
    // switch of solve() would leave it (the cycles must look at the mode, not at the option)
    const bool combined = ext && !reference && !k["fmg"].boolean() && (c["id"].num() % 2 == 0); // (solve() re-arms the mode before an FMG start-up)
    g->extrapolation(!ext ? ExtrapolationType::NONE
                          : (reference || combined) ? ExtrapolationType::COMBINED
                                      : (xs ? ExtrapolationType::IMPLICIT_EXTRAPOLATION : ExtrapolationType::IMPLICIT_FULL_GRID_SMOOTHING));
    g->maxIterations(0);
    g->setup();
    if (combined)
        GMGPolarVerifAccess::fgs(*g) = !xs;
    return g;
}

struct Interp {
    GMGPolar& ref;
    std::vector<Level>& lv;
    Interpolation& ip;
    const Vec* u0;
    std::map<std::string, Vec> memo;
    std::map<std::string, const mj::Value*> defs;
    long ops = 0;
    Interp(GMGPolar& r)
        : ref(r)
        , lv(A::levels(r))
        , ip(A::interp(r))
        , u0(nullptr)
    {
    }
    static std::string pathKey(const mj::Value& p)
    {
        std::string s;
        for (const auto& e : p.arr())
            s += std::to_string(e.num()) + ".";
        return s;
    }
    Vec nanVec(int n)
    {
        Vec v(n);
        for (int i = 0; i < n; i++)
            v[i] = std::numeric_limits<double>::quiet_NaN();
        return v;
    }
    Vec eval(const mj::Value& t)
    {
        const std::string op = t[0].str();
        ops++;
        if (op == "U0")
            return *u0;
        if (op == "Zero") { // size is fixed by the consumer: handled there
            throw std::runtime_error("Zero outside a sized context");
        }
        if (op == "F")
            return lv[t[1].num()].rhs();
        if (op == "RC") {
            std::string k = pathKey(t[1]);
            auto it       = memo.find(k);
            if (it != memo.end())
                return it->second;
            Vec v   = eval(*defs.at(k));
            memo[k] = v;
            return v;
        }
        if (op == "S" || op == "SX") {
            int l = t[1].num();
            Vec x = sized(t[2], lv[l].grid().numberOfNodes());
            Vec f = sized(t[3], lv[l].grid().numberOfNodes());
            Vec tmp = nanVec(x.size());
            if (op == "S")
                lv[l].smoothing(x, f, tmp);
            else
                lv[l].extrapolatedSmoothing(x, f, tmp);
            return x;
        }
        if (op == "Res") {
            int l = t[1].num();
            Vec f = sized(t[2], lv[l].grid().numberOfNodes());
            Vec u = sized(t[3], lv[l].grid().numberOfNodes());
            Vec r = nanVec(u.size());
            lv[l].computeResidual(r, f, u);
            return r;
        }
        if (op == "R" || op == "RX" || op == "Inj") {
            int l = t[1].num();
            Vec v = sized(t[2], lv[l].grid().numberOfNodes());
            Vec r = nanVec(lv[l + 1].grid().numberOfNodes());
            if (op == "R")
                ip.applyRestriction(lv[l], lv[l + 1], r, v);
            else if (op == "RX")
                ip.applyExtrapolatedRestriction(lv[l], lv[l + 1], r, v);
            else
                ip.applyInjection(lv[l], lv[l + 1], r, v);
            return r;
        }
        if (op == "P" || op == "PX" || op == "FI") {
            int l = t[1].num();
            Vec v = sized(t[2], lv[l].grid().numberOfNodes());
            Vec r = nanVec(lv[l - 1].grid().numberOfNodes());
            if (op == "P")
                ip.applyProlongation(lv[l], lv[l - 1], r, v);
            else if (op == "PX")
                ip.applyExtrapolatedProlongation(lv[l], lv[l - 1], r, v);
            else
                ip.applyFMGInterpolation(lv[l], lv[l - 1], r, v);
            return r;
        }
        if (op == "D") {
            int l = t[1].num();
            Vec v = sized(t[2], lv[l].grid().numberOfNodes());
            lv[l].directSolveInPlace(v);
            return v;
        }
        if (op == "Add") {
            if (t[1][0].str() == "Zero") { // 0 + b: the size comes from b
                Vec b = eval(t[2]);
                Vec a = sized(t[1], b.size());
                add(a, b);
                return a;
            }
            Vec a = eval(t[1]);
            Vec b = sized(t[2], a.size());
            add(a, b);
            return a;
        }
        if (op == "Lin") {
            double ca = t[1].str() == "4/3" ? 4.0 / 3.0 : -1.0 / 3.0, cb = t[3].str() == "4/3" ? 4.0 / 3.0 : -1.0 / 3.0;
            Vec a = eval(t[2]);
            Vec b = sized(t[4], a.size());
            linear_combination(a, ca, b, cb);
            return a;
        }
        throw std::runtime_error("unknown term operator " + op);
    }
    Vec sized(const mj::Value& t, int n)
    {
        if (t[0].str() == "Zero") {
            Vec z(n);
            assign(z, 0.0);
            return z;
        }
        Vec v = eval(t);
        if (v.size() != n)
            throw std::runtime_error("term has size " + std::to_string(v.size()) + ", expected " + std::to_string(n));
        return v;
    }
};

static void poison(Vec& v)
{
    for (int i = 0; i < v.size(); i++)
        v[i] = std::numeric_limits<double>::quiet_NaN();
}

int main(int argc, char** argv)
{
    if (argc < 2)
        return 2;
    std::ifstream in(argv[1]);
    // optional operator-level trace (validated against spec/TraceOps.tla): the object under test only
    FILE* trace = argc > 2 ? std::fopen(argv[2], "w") : nullptr;
    std::string line;
    long n = 0;
    while (std::getline(in, line)) {
        if (line.empty())
            continue;
        n++;
        mj::Value c = mj::parse(line);
        int id      = c["id"].num();
        std::string fail;
        double maxdiff = 0, scale = 0;
        int bitwise = 0, nans = 0;
        long ops = 0;
        try {
            gmgpolar_verif::sink() = trace;
            VERIF_EV("Ctor", "\"case\":%d", id);
            auto G = make(c, false);
            gmgpolar_verif::sink() = nullptr;
            auto R = make(c, true);
            auto& gl = A::levels(*G);
            const auto& k = c["cfg"];
            bool fmg = k["fmg"].boolean(), ext = k["ext"].boolean();
            std::string kind = k["kind"].str();
            int kk = kind == "V" ? 0 : kind == "W" ? 1 : 2;
            int N  = gl[0].solution().size();
            std::mt19937 gen(1234 + id);
            std::uniform_real_distribution<double> U(-1, 1);
            Vec u0(N);
            std::string start = c["start"].str();
            if (start == "exact") { // converge the iteration of this configuration to its fixed point first
                G->maxIterations(300);
                G->absoluteTolerance(1e-13);
                G->relativeTolerance(1e-14);
                G->preSmoothingSteps(std::max(1, k["nu1"].num()));
                G->postSmoothingSteps(std::max(1, k["nu2"].num()));
                G->solve();
                u0 = G->solution();
                G->preSmoothingSteps(k["nu1"].num());
                G->postSmoothingSteps(k["nu2"].num());
            }
            else
                for (int i = 0; i < N; i++)
                    u0[i] = U(gen);
            // arbitrary old data in every work vector the cycle may use as scratch
            for (size_t l = 0; l < gl.size(); l++) {
                poison(gl[l].residual());
                if (l > 0) {
                    poison(gl[l].solution());
                    poison(gl[l].error_correction());
                }
            }
            if (ext && fail.empty()) { // the residual of the extrapolated system (stopping test): 4/3 r_f on fine-only nodes, (4 r_f - r_c)/3 on coarse nodes
                const PolarGrid& fg = gl[0].grid();
                const PolarGrid& cg = gl[1].grid();
                Vec rf(N), rc(cg.numberOfNodes());
                for (int i = 0; i < N; i++)
                    rf[i] = U(gen);
                for (int i = 0; i < rc.size(); i++)
                    rc[i] = U(gen);
                Vec got(rf);
                A::extrapolatedResidual(*G, 0, got, rc);
                for (int ir = 0; ir < fg.nr() && fail.empty(); ir++)
                    for (int it = 0; it < fg.ntheta(); it++) {
                        int q       = fg.index(ir, it);
                        double want = (ir % 2 || it % 2) ? 4.0 / 3.0 * rf[q] : (4.0 * rf[q] - rc[cg.index(ir / 2, it / 2)]) / 3.0;
                        if (!(fabs(got[q] - want) <= 1e-14 * (1 + fabs(want)))) {
                            fail = "extrapolated residual at node (" + std::to_string(ir) + "," + std::to_string(it) + ") = " + std::to_string(got[q]) +
                                   ", definition " + std::to_string(want);
                            break;
                        }
                    }
            }
            Interp I(*R);
            for (const auto& d : c["defs"].arr())
                I.defs[Interp::pathKey(d["p"])] = &d["d"];
            Vec real(N);
            if (!fmg) {
                gl[0].solution() = u0;
                gmgpolar_verif::sink() = trace;
                // the markers solve() would emit around one cycle
                VERIF_EV("SolveEnter", "\"fgs\":%d,\"nu1\":%d,\"nu2\":%d,\"fmgIts\":0,\"fmgKind\":0,\"kind\":%d,\"extMode\":%d,\"fmg\":0",
                         (int)A::fgs(*G), k["nu1"].num(), k["nu2"].num(), kk, ext ? (int)G->extrapolation() : 0);
                VERIF_EV("CycleRun", "\"k\":0,\"kind\":%d,\"ext\":%d,\"fgs\":%d", kk, ext ? 1 : 0, (int)A::fgs(*G));
                A::cycle(*G, kk, ext, 0, gl[0].solution(), gl[0].rhs(), gl[0].residual());
                VERIF_EV("CycleDone", "\"k\":1");
                gmgpolar_verif::sink() = nullptr;
                real = gl[0].solution();
            }
            else {
                poison(gl[0].solution());
                G->maxIterations(0);
                gmgpolar_verif::sink() = trace;
                G->solve();
                gmgpolar_verif::sink() = nullptr;
                real = G->solution();
            }
            I.u0     = &u0;
            Vec ideal = I.eval(c["term"]);
            ops       = I.ops;
            bitwise   = memcmp(real.begin(), ideal.begin(), N * sizeof(double)) == 0;
            for (int i = 0; i < N; i++) {
                if (real[i] != real[i] || ideal[i] != ideal[i])
                    nans++;
                else {
                    maxdiff = std::max(maxdiff, fabs(real[i] - ideal[i]));
                    scale   = std::max(scale, fabs(ideal[i]));
                }
            }
            if (nans)
                fail = std::to_string(nans) + " NaN entries: the result depends on stale scratch data";
            else if (!(maxdiff <= 1e-11 * (1 + scale)))
                fail = "cycle result differs from the specification term: max diff " + std::to_string(maxdiff) + " (scale " +
                       std::to_string(scale) + ")";
            if (fail.empty() && start == "exact") { // C10: the exact solution is a fixed point
                double d = 0;
                for (int i = 0; i < N; i++)
                    d = std::max(d, fabs(real[i] - u0[i]));
                if (!(d <= 1e-8 * (1 + scale)))
                    fail = "a cycle started from the converged solution moves it by " + std::to_string(d);
            }
        }
        catch (const std::exception& e) {
            fail = std::string("exception: ") + e.what();
            gmgpolar_verif::sink() = nullptr;
        }
        std::cout << "{\"case\":" << id << ",\"ok\":" << (fail.empty() ? "true" : "false") << ",\"bitwise\":" << bitwise
                  << ",\"maxdiff\":" << maxdiff << ",\"ops\":" << ops << ",\"what\":\"" << mj::escape(fail) << "\"}" << std::endl;
    }
    std::cout << "{\"summary\":true,\"cases\":" << n << "}" << std::endl;
    return 0;
}
