// Life-cycle replay + trace recording driver for spec/Solver.tla (C13, C20, C01 stop rule, C09 start-up).
// usage: drv_solver <cases.ndjson> <trace_out.ndjson>
// A case: {"id":n, "base":[cli args...], "ctor":{abstract options}, "steps":[{"a":"SetOpt","name":..,"val":..},{"a":"Setup"},{"a":"Solve"}]}
// Every step is executed on one long-lived object G (events go to the trace) and, after every solve, on a fresh
// object F constructed with the same option history (trace sink off); solution, iteration count, reduction
// factor and error figures are compared bit for bit.  A second fresh object with the OTHER stencil strategy
// recomputes the residual of G's solution independently (C01: a reported stop is true).
#include <cmath>
#include <cstring>
#include <fstream>
#include <iostream>
#include <sstream>
#include "verif_access.h"
#include "mini_json.h"

using gmgpolar_verif::dbl;
using gmgpolar_verif::event;

struct Misc {
    int cycle, pre, post, norm, fmgIts, fmgCycle;
};
static Misc miscOf(int v)
{
    static const Misc table[] = {{0, 1, 1, 0, 2, 0}, {1, 1, 1, 1, 1, 2}, {2, 2, 1, 2, 0, 1}, {0, 1, 2, 1, 3, 0},
                                 {2, 1, 1, 0, 1, 1}, {1, 2, 2, 2, 2, 2}};
    if (v >= 1000) { // mixed radix: cycle(3) pre(2) post(2) norm(3) fmgIts(4) fmgCycle(3)
        int x = v - 1000;
        Misc m;
        m.cycle    = x % 3;
        x /= 3;
        m.pre = 1 + x % 2;
        x /= 2;
        m.post = 1 + x % 2;
        x /= 2;
        m.norm = x % 3;
        x /= 3;
        m.fmgIts = x % 4;
        x /= 4;
        m.fmgCycle = x % 3;
        return m;
    }
    return table[((v % 6) + 6) % 6];
}
static const double ABS_TOL = 1e-7, REL_TOL = 1e-6;

static void applyOpt(GMGPolar& g, const std::string& name, int val)
{
    if (name == "ext")
        g.extrapolation(static_cast<ExtrapolationType>(val));
    else if (name == "fmg")
        g.FMG(val != 0);
    else if (name == "L")
        g.maxLevels(val == 0 ? -1 : val); // 0 = automatic
    else if (name == "take")
        g.stencilDistributionMethod(val ? StencilDistributionMethod::CPU_TAKE : StencilDistributionMethod::CPU_GIVE);
    else if (name == "caches") {
        // 0 none, 1 both; 2 = density coefficients only, 3 = geometry only (legal with give; the life-cycle model sees "not both")
        g.cacheDensityProfileCoefficients(val == 1 || val == 2);
        g.cacheDomainGeometry(val == 1 || val == 3);
    }
    else if (name == "maxIter")
        g.maxIterations(val);
    else if (name == "absOn")
        g.absoluteTolerance(val ? ABS_TOL : -1.0);
    else if (name == "relOn")
        g.relativeTolerance(val ? REL_TOL : -1.0);
    else if (name == "exact") {
        if (!val)
            g.setSolution(nullptr);
    }
    else if (name == "grid")
        g.divideBy2(val);
    else if (name == "misc") {
        Misc m = miscOf(val);
        g.multigridCycle(static_cast<MultigridCycleType>(m.cycle));
        g.preSmoothingSteps(m.pre);
        g.postSmoothingSteps(m.post);
        g.residualNormType(static_cast<ResidualNormType>(m.norm));
        g.FMG_iterations(m.fmgIts);
        g.FMG_cycle(static_cast<MultigridCycleType>(m.fmgCycle));
    }
    else
        throw std::runtime_error("driver: unknown option " + name);
}

// the options as the getters report them, in the abstract encoding of the case files: setup() and solve() must not change them
static void optsEvent(GMGPolar& g)
{
    event("Opts", "\"ext\":%d,\"fmg\":%d,\"L\":%d,\"take\":%d,\"caches\":%d,\"maxIter\":%d,\"absOn\":%d,\"relOn\":%d,\"grid\":%d",
          (int)g.extrapolation(), (int)g.FMG(), g.maxLevels() <= 0 ? 0 : g.maxLevels(), (int)(g.stencilDistributionMethod() == StencilDistributionMethod::CPU_TAKE),
          (int)(g.cacheDensityProfileCoefficients() && g.cacheDomainGeometry()), g.maxIterations(), (int)(g.absoluteTolerance() >= 0.0),
          (int)(g.relativeTolerance() >= 0.0), g.divideBy2());
}

static std::unique_ptr<GMGPolar> construct(const mj::Value& c)
{
    std::vector<std::string> args = {"drv"};
    for (const auto& a : c["base"].arr())
        args.push_back(a.str());
    std::vector<char*> argv;
    for (auto& s : args)
        argv.push_back(s.data());
    auto g = std::make_unique<GMGPolar>();
    g->setParameters((int)argv.size(), argv.data());
    g->verbose(0);
    g->paraview(false);
    const auto& o = c["ctor"];
    for (const char* n : {"ext", "fmg", "L", "take", "caches", "maxIter", "absOn", "relOn", "exact", "misc", "grid"})
        if (o.has(n))
            applyOpt(*g, n, o[n].kind == mj::Value::Bool ? (int)o[n].boolean() : o[n].num());
    return g;
}

static double normOf(const Vector<double>& r, int type, int nodes)
{
    switch (type) {
    case 0:
        return sqrt(l2_norm_squared(r));
    case 1:
        return sqrt(l2_norm_squared(r)) / sqrt((double)nodes);
    default:
        return infinity_norm(r);
    }
}

// residual of `u` recomputed by an independently constructed solver object H (other strategy)
static bool indepResidual(GMGPolar& H, const Vector<double>& u, int normType, bool ext, double& out)
{
    auto& lv = GMGPolarVerifAccess::levels(H);
    if (lv.empty() || lv[0].solution().size() != u.size())
        return false;
    Vector<double> r(u.size());
    lv[0].computeResidual(r, lv[0].rhs(), u);
    if (ext) {
        Vector<double> uc(lv[1].solution().size()), rc(lv[1].solution().size());
        GMGPolarVerifAccess::interp(H).applyInjection(lv[0], lv[1], uc, u);
        lv[1].computeResidual(rc, lv[1].rhs(), uc);
        const PolarGrid& fg = lv[0].grid();
        const PolarGrid& cg = lv[1].grid();
        for (int ir = 0; ir < fg.nr(); ir++)
            for (int it = 0; it < fg.ntheta(); it++) {
                int idx = fg.index(ir, it);
                if ((ir & 1) || (it & 1))
                    r[idx] *= 4.0 / 3.0;
                else
                    r[idx] = (4.0 * r[idx] - rc[cg.index(ir / 2, it / 2)]) / 3.0;
            }
    }
    out = normOf(r, normType, lv[0].grid().numberOfNodes());
    return true;
}

int main(int argc, char** argv)
{
    if (argc < 3)
        return 2;
    std::ifstream in(argv[1]);
    FILE* trace = fopen(argv[2], "w");
    std::string line;
    long ncase = 0;
    while (std::getline(in, line)) {
        if (line.empty())
            continue;
        mj::Value c = mj::parse(line);
        ncase++;
        gmgpolar_verif::sink() = nullptr;
        std::unique_ptr<GMGPolar> G;
        try {
            G = construct(c);
        }
        catch (const std::exception& e) {
            std::cout << "{\"case\":" << c["id"].num() << ",\"ctorThrew\":\"" << mj::escape(e.what()) << "\"}\n";
            continue;
        }
        gmgpolar_verif::sink() = trace;
        const auto& o = c["ctor"];
        auto B        = [&](const char* n) { return o[n].kind == mj::Value::Bool ? (int)o[n].boolean() : (int)(o[n].num() == 1); };
        event("Ctor", "\"c01\":%d,\"case\":%d,\"ext\":%d,\"fmg\":%d,\"L\":%d,\"take\":%d,\"caches\":%d,\"maxIter\":%d,\"absOn\":%d,\"relOn\":%d,"
                      "\"exact\":%d,\"misc\":%d,\"grid\":%d",
              c.has("c01") ? c["c01"].num() : 0, c["id"].num(), o["ext"].num(), B("fmg"), o["L"].num(), B("take"), B("caches"), o["maxIter"].num(),
              B("absOn"), B("relOn"), B("exact"), o["misc"].num(), o.has("grid") ? o["grid"].num() : 0);
        std::vector<std::pair<std::string, int>> optHistory;
        bool exactOn = o["exact"].boolean();
        int misc = o["misc"].num(), ext = o["ext"].num();
        bool built = false;
        int stepNo = 0;
        for (const auto& st : c["steps"].arr()) {
            stepNo++;
            const std::string a = st["a"].str();
            if (a == "SetOpt") {
                std::string name = st["name"].str();
                int val          = st["val"].kind == mj::Value::Bool ? (int)st["val"].boolean() : st["val"].num();
                applyOpt(*G, name, val);
                optHistory.push_back({name, val});
                if (name == "misc")
                    misc = val;
                if (name == "ext")
                    ext = val;
                event("SetOpt", "\"name\":\"%s\",\"val\":%d", name.c_str(), val);
            }
            else if (a == "Setup") {
                try {
                    G->setup();
                    built = true;
                }
                catch (const std::exception& e) {
                    event("SetupThrew", "\"what\":\"%s\"", mj::escape(e.what()).substr(0, 80).c_str());
                }
                optsEvent(*G);
            }
            else if (a == "Solve") {
                int builtExt = (int)G->extrapolation();
                try {
                    G->solve();
                }
                catch (const std::exception& e) {
                    event("SolveThrew", "\"what\":\"%s\"", mj::escape(e.what()).substr(0, 80).c_str());
                    optsEvent(*G);
                    continue;
                }
                optsEvent(*G);
                auto e2 = G->exactErrorWeightedEuclidean();
                auto ei = G->exactErrorInfinity();
                event("Get", "\"nIter\":%d,\"hasErr\":%d,\"rho\":%s,\"err2\":%s", G->numberOfIterations(), (int)e2.has_value(),
                      dbl(G->meanResidualReductionFactor()).c_str(), dbl(e2.value_or(0.0)).c_str());
                // ---- fresh object with the same option history
                gmgpolar_verif::sink() = nullptr;
                int sameSol = 0, sameIter = 0, sameRho = 0, sameErr = 0, freshOk = 0;
                std::string freshWhat;
                try {
                    auto F = construct(c);
                    for (auto& p : optHistory)
                        applyOpt(*F, p.first, p.second);
                    F->setup();
                    F->solve();
                    freshOk          = 1;
                    const auto& us   = G->solution();
                    const auto& uf   = F->solution();
                    sameSol          = us.size() == uf.size() && memcmp(us.begin(), uf.begin(), us.size() * sizeof(double)) == 0;
                    sameIter         = G->numberOfIterations() == F->numberOfIterations();
                    double r1 = G->meanResidualReductionFactor(), r2 = F->meanResidualReductionFactor();
                    sameRho          = memcmp(&r1, &r2, sizeof r1) == 0;
                    auto f2 = F->exactErrorWeightedEuclidean();
                    auto fi = F->exactErrorInfinity();
                    sameErr = e2.has_value() == f2.has_value() && (!e2.has_value() || (*e2 == *f2 && *ei == *fi));
                    if (!sameSol || !sameIter || !sameRho || !sameErr) {
                        std::ostringstream os;
                        os << "iters " << G->numberOfIterations() << "/" << F->numberOfIterations() << " rho " << r1 << "/" << r2
                           << " err " << e2.value_or(-1) << "/" << f2.value_or(-1);
                        freshWhat = os.str();
                    }
                }
                catch (const std::exception& e) {
                    freshWhat = std::string("fresh object threw: ") + e.what();
                }
                // ---- independent residual (other strategy, caches on)
                double indep = 0, indep0 = 0;
                int valid = 0;
                try {
                    auto H = construct(c);
                    for (auto& p : optHistory)
                        applyOpt(*H, p.first, p.second);
                    H->cacheDensityProfileCoefficients(true);
                    H->cacheDomainGeometry(true);
                    H->stencilDistributionMethod(G->stencilDistributionMethod() == StencilDistributionMethod::CPU_TAKE
                                                     ? StencilDistributionMethod::CPU_GIVE
                                                     : StencilDistributionMethod::CPU_TAKE);
                    H->FMG(false);
                    H->setup();
                    Misc m = miscOf(misc);
                    Vector<double> u0(G->solution().size());
                    assign(u0, 0.0);
                    if (G->FMG()) { // the start iterate of the nested iteration: a fresh object that runs no cycle
                        auto F0 = construct(c);
                        for (auto& p : optHistory)
                            applyOpt(*F0, p.first, p.second);
                        F0->maxIterations(0);
                        F0->setup();
                        F0->solve();
                        u0 = F0->solution();
                    }
                    valid = indepResidual(*H, G->solution(), m.norm, ext != 0, indep) ? 1 : 0;
                    indepResidual(*H, u0, m.norm, ext != 0, indep0);
                }
                catch (const std::exception& e) {
                    valid = 0;
                }
                gmgpolar_verif::sink() = trace;
                event("FreshCompare", "\"ok\":%d,\"sameSolution\":%d,\"sameIter\":%d,\"sameRho\":%d,\"sameErr\":%d,\"what\":\"%s\"", freshOk,
                      sameSol, sameIter, sameRho, sameErr, mj::escape(freshWhat).c_str());
                // thresholds: tolerance + slack for two correct evaluations of a residual whose terms are ~1e5 |u|
                double slack = 1e-9 * (1.0 + indep0);
                event("IndepResidual", "\"valid\":%d,\"abs\":%s,\"absThr\":%s,\"relThrAbs\":%s,\"r0\":%s", valid,
                      dbl(indep).c_str(), dbl(ABS_TOL * 1.001 + slack).c_str(), dbl(REL_TOL * indep0 * 1.001 + slack).c_str(),
                      dbl(indep0).c_str());
                (void)builtExt;
                (void)exactOn;
            }
        }
        gmgpolar_verif::sink() = nullptr;
        std::cout << "{\"case\":" << c["id"].num() << ",\"done\":true}\n";
    }
    fclose(trace);
    std::cout << "{\"summary\":true,\"cases\":" << ncase << "}\n";
    return 0;
}
