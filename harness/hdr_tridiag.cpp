// Conformance driver for spec/TridiagAlg.tla (C14) and numeric exploration beyond the model.
// usage: hdr_tridiag tables <file.ndjson>      compare real solver with TLC's exact tables
//        hdr_tridiag numeric <seed> <count>    random SPD systems up to n=10^4, widely scaled, repeated solves
#include <LinearAlgebra/symmetricTridiagonalSolver.h>
#include <LinearAlgebra/diagonalSolver.h>
#include <cmath>
#include <cstdio>
#include <cstring>
#include <fstream>
#include <iostream>
#include <random>
#include <string>
#include <vector>
#include "mini_json.h"

using Solver = SymmetricTridiagonalSolver<double>;
static long double frac(const mj::Value& f) { return (long double)f[0].dbl() / (long double)f[1].dbl(); }
static double rhsval(int k, int i1) { return k == 1 ? (double)i1 : (i1 % 2 == 0 ? -2.0 : 3.0); }

// dense SPD test (Cholesky in long double)
static bool isSPD(std::vector<std::vector<long double>> A)
{
    int n = (int)A.size();
    for (int j = 0; j < n; j++) {
        for (int k = 0; k < j; k++)
            A[j][j] -= A[j][k] * A[j][k];
        if (!(A[j][j] > 1e-9L))
            return false;
        A[j][j] = sqrtl(A[j][j]);
        for (int i = j + 1; i < n; i++) {
            for (int k = 0; k < j; k++)
                A[i][j] -= A[i][k] * A[j][k];
            A[i][j] /= A[j][j];
        }
    }
    return true;
}

static int tables(const char* file)
{
    std::ifstream in(file);
    std::string line;
    long ncase = 0, nspd = 0, nfail = 0, nbad = 0, ndrift = 0;
    while (std::getline(in, line)) {
        if (line.empty())
            continue;
        ncase++;
        mj::Value t = mj::parse(line);
        int n       = t["n"].num();
        bool cyc    = t["cyc"].boolean();
        if (t["bad"].boolean()) { // the model says a pivot vanishes: outside the property's domain
            nbad++;
            continue;
        }
        std::vector<std::vector<long double>> A(n, std::vector<long double>(n, 0));
        Solver S(n);
        S.is_cyclic(cyc);
        for (int i = 0; i < n; i++) {
            S.main_diagonal(i) = t["diag"][i].dbl();
            A[i][i]            = t["diag"][i].dbl();
        }
        for (int i = 0; i < n - 1; i++) {
            S.sub_diagonal(i) = t["sub"][i].dbl();
            A[i][i + 1] += t["sub"][i].dbl();
            A[i + 1][i] += t["sub"][i].dbl();
        }
        if (cyc) {
            S.cyclic_corner_element() = t["corner"].dbl();
            A[0][n - 1] += t["corner"].dbl();
            A[n - 1][0] += t["corner"].dbl();
        }
        bool spd = isSPD(A);
        nspd += spd;
        std::vector<double> x(n), t1(n), t2(n);
        std::string fail;
        const auto& seq = t["seq"].arr();
        std::vector<std::vector<double>> firstres(3);
        for (size_t q = 0; q < seq.size() && fail.empty(); q++) {
            int k = seq[q].num();
            for (int i = 0; i < n; i++)
                x[i] = rhsval(k, i + 1);
            S.solveInPlace(x.data(), t1.data(), t2.data());
            if (firstres[k].empty())
                firstres[k] = x;
            else if (memcmp(firstres[k].data(), x.data(), n * sizeof(double)) != 0)
                fail = "repeated solve with the same right-hand side is not bitwise identical";
        }
        if (spd && fail.empty()) {
            long double xm = 0;
            for (int i = 0; i < n; i++)
                xm = std::max(xm, fabsl(frac(t["x"][i])));
            for (int i = 0; i < n && fail.empty(); i++) {
                if (!(fabsl(x[i] - frac(t["x"][i])) <= 1e-11L * (1 + xm)))
                    fail = "x[" + std::to_string(i) + "]=" + std::to_string(x[i]) + " model " +
                           std::to_string((double)frac(t["x"][i]));
            }
            // the arrays exposed by the accessors after a solve are the factors the model computed - this binds the transcription
            // TridiagAlg.tla to the code, but the property does not demand a particular factor layout: a difference is DRIFT
            std::string drift;
            for (int i = 0; i < n && drift.empty(); i++)
                if (!(fabsl(S.main_diagonal(i) - frac(t["fd"][i])) <= 1e-11L * (1 + fabsl(frac(t["fd"][i])))))
                    drift = "factor D[" + std::to_string(i) + "]=" + std::to_string(S.main_diagonal(i)) + " model " +
                            std::to_string((double)frac(t["fd"][i]));
            for (int i = 0; i < n - 1 && drift.empty(); i++)
                if (!(fabsl(S.sub_diagonal(i) - frac(t["fs"][i])) <= 1e-11L * (1 + fabsl(frac(t["fs"][i])))))
                    drift = "factor L[" + std::to_string(i) + "]=" + std::to_string(S.sub_diagonal(i)) + " model " +
                            std::to_string((double)frac(t["fs"][i]));
            if (!drift.empty() && fail.empty() && ndrift++ < 3)
                std::cout << "{\"drift\":true,\"n\":" << n << ",\"what\":\"" << mj::escape(drift) << "\"}\n";
        }
        if (!fail.empty()) {
            nfail++;
            if (nfail <= 50)
                std::cout << "{\"fail\":true,\"n\":" << n << ",\"cyc\":" << (cyc ? "true" : "false") << ",\"spd\":"
                          << (spd ? "true" : "false") << ",\"what\":\"" << mj::escape(fail) << "\",\"table\":" << line
                          << "}\n";
        }
    }
    std::cout << "{\"summary\":true,\"cases\":" << ncase << ",\"spd\":" << nspd << ",\"model_bad\":" << nbad
              << ",\"failed\":" << nfail << ",\"factor_drift\":" << ndrift << "}\n";
    return 0;
}

// ---------------------------------------------------------------------------------------------
static int numeric(unsigned seed, int count)
{
    std::mt19937 gen(seed);
    std::uniform_real_distribution<double> U(-1, 1);
    long nfail = 0, ncase = 0;
    double worst = 0;
    const int dims[] = {2, 3, 4, 5, 7, 10, 33, 100, 1000, 10000};
    for (int c = 0; c < count; c++) {
        int n      = dims[c % 10];
        bool cyc   = (c / 10) % 2;
        int kind   = (c / 20) % 5; // 0 diag dominant, 1 zero sub-diagonals sprinkled, 2 symmetric scaling 1e-5..1e5, 3 nearly singular SPD (laplacian + eps), 4 whole system scaled by 1e-20..1e20
        std::vector<double> dg(n), sb(n > 1 ? n - 1 : 0), sc(n, 1.0);
        double corner = cyc ? U(gen) : 0.0;
        for (int i = 0; i < n - 1; i++)
            sb[i] = (kind == 1 && gen() % 3 == 0) ? 0.0 : U(gen);
        if (kind == 3) {
            for (int i = 0; i < n - 1; i++)
                sb[i] = -1.0;
            if (cyc)
                corner = -1.0;
        }
        for (int i = 0; i < n; i++) {
            double off = (i > 0 ? fabs(sb[i - 1]) : 0) + (i < n - 1 ? fabs(sb[i]) : 0);
            if (cyc && (i == 0 || i == n - 1))
                off += fabs(corner) * (n == 2 ? 1 : 1);
            dg[i] = off + (kind == 3 ? 1e-3 : 0.1 + fabs(U(gen)));
        }
        if (kind == 2)
            for (int i = 0; i < n; i++)
                sc[i] = pow(10.0, 5.0 * U(gen));
        if (kind == 4) { // the factorisation is scale invariant: A and b scaled by the same (possibly tiny) factor
            double s = pow(10.0, 10.0 * U(gen));
            for (int i = 0; i < n; i++)
                sc[i] = s;
        }
        // A' = S A S
        auto Ad = [&](int i) { return dg[i] * sc[i] * sc[i]; };
        auto As = [&](int i) { return sb[i] * sc[i] * sc[i + 1]; };
        double Ac = corner * sc[0] * sc[n - 1];
        Solver S(n);
        S.is_cyclic(cyc);
        for (int i = 0; i < n; i++)
            S.main_diagonal(i) = Ad(i);
        for (int i = 0; i < n - 1; i++)
            S.sub_diagonal(i) = As(i);
        if (cyc)
            S.cyclic_corner_element() = Ac;
        std::vector<double> b(n), x(n), t1(n), t2(n), x2(n);
        for (int i = 0; i < n; i++)
            b[i] = (c % 4 == 1 && i < n / 2) || (c % 4 == 3 && i >= n / 2 && i < n - 1) ? 0.0 : U(gen) * sc[i]; // also sparse right-hand sides (exact zeros in front / behind)
        x = b;
        S.solveInPlace(x.data(), t1.data(), t2.data());
        std::string fail;
        for (int rep = 0; rep < 3 && fail.empty(); rep++) {
            x2 = b;
            S.solveInPlace(x2.data(), t1.data(), t2.data());
            if (memcmp(x.data(), x2.data(), n * sizeof(double)) != 0)
                fail = "solve #" + std::to_string(rep + 2) + " differs from the first";
        }
        // componentwise backward error  |b - A x|_i / (|A||x| + |b|)_i
        double be = 0;
        for (int i = 0; i < n && fail.empty(); i++) {
            long double r = b[i], den = fabs(b[i]);
            auto add = [&](double a, int j) {
                r -= (long double)a * x[j];
                den += fabsl((long double)a * x[j]);
            };
            add(Ad(i), i);
            if (i > 0)
                add(As(i - 1), i - 1);
            if (i < n - 1)
                add(As(i), i + 1);
            if (cyc && i == 0)
                add(Ac, n - 1);
            if (cyc && i == n - 1)
                add(Ac, 0);
            if (!std::isfinite((double)r))
                fail = "non-finite solution";
            // rows whose terms have decayed into the subnormal range (far away from the support of a sparse right-hand side) carry no
            // relative information: judged against the smallest normalised number instead
            if (den > 0)
                be = std::max(be, (double)(fabsl(r) / (den + 1e-290L)));
        }
        ncase++;
        worst = std::max(worst, be);
        // SPD systems: LDL^T is componentwise backward stable; Sherman-Morrison adds a modest factor.
        double bound = (kind == 3 ? 1e-10 : 1e-13) * (cyc ? 100 : 1);
        if (fail.empty() && !(be <= bound))
            fail = "backward error " + std::to_string(be) + " above " + std::to_string(bound);
        if (!fail.empty()) {
            nfail++;
            if (nfail <= 20)
                std::cout << "{\"fail\":true,\"n\":" << n << ",\"cyc\":" << cyc << ",\"kind\":" << kind << ",\"case\":" << c
                          << ",\"what\":\"" << mj::escape(fail) << "\"}\n";
        }
    }
    // DiagonalSolver: x = b / d exactly (one rounding)
    for (int c = 0; c < 50; c++) {
        int n = 1 + (int)(gen() % 50);
        DiagonalSolver<double> D(n);
        std::vector<double> b(n), x(n);
        for (int i = 0; i < n; i++) {
            D.diagonal(i) = (0.1 + fabs(U(gen))) * pow(10.0, 5 * U(gen));
            b[i]          = U(gen);
        }
        x = b;
        D.solveInPlace(x.data());
        for (int i = 0; i < n; i++)
            if (x[i] != b[i] / D.diagonal(i)) {
                nfail++;
                std::cout << "{\"fail\":true,\"what\":\"DiagonalSolver result is not b/d\"}\n";
                break;
            }
        ncase++;
    }
    std::cout << "{\"summary\":true,\"cases\":" << ncase << ",\"worst_backward_error\":" << worst << ",\"failed\":" << nfail
              << "}\n";
    return 0;
}

int main(int argc, char** argv)
{
    if (argc >= 3 && std::string(argv[1]) == "tables")
        return tables(argv[2]);
    if (argc >= 4 && std::string(argv[1]) == "numeric")
        return numeric((unsigned)atoi(argv[2]), atoi(argv[3]));
    fprintf(stderr, "usage\n");
    return 2;
}
