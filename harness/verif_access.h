// Harness-side definition of the guarded friend declared in include/GMGPolar/gmgpolar.h
#pragma once
#include <GMGPolar/gmgpolar.h>
#ifndef GMGPOLAR_VERIF
#error "the harness must be built with -DGMGPOLAR_VERIF"
#endif
struct GMGPolarVerifAccess {
    static std::vector<Level>& levels(GMGPolar& g) { return g.levels_; }
    static int nlevels(const GMGPolar& g) { return g.number_of_levels_; }
    static Interpolation& interp(GMGPolar& g) { return *g.interpolation_; }
    static bool& fgs(GMGPolar& g) { return g.full_grid_smoothing_; }
    static std::vector<int>& threads(GMGPolar& g) { return g.threads_per_level_; }
    static void initializeSolution(GMGPolar& g) { g.initializeSolution(); }
    static void extrapolatedResidual(GMGPolar& g, int lvl, Vector<double>& r, const Vector<double>& rc)
    {
        g.extrapolatedResidual(lvl, r, rc);
    }
    // kind 0 V, 1 W, 2 F
    static void cycle(GMGPolar& g, int kind, bool ext, int depth, Vector<double>& sol, Vector<double>& rhs,
                      Vector<double>& res)
    {
        if (!ext) {
            if (kind == 0)
                g.multigrid_V_Cycle(depth, sol, rhs, res);
            else if (kind == 1)
                g.multigrid_W_Cycle(depth, sol, rhs, res);
            else
                g.multigrid_F_Cycle(depth, sol, rhs, res);
        }
        else {
            if (kind == 0)
                g.implicitlyExtrapolatedMultigrid_V_Cycle(depth, sol, rhs, res);
            else if (kind == 1)
                g.implicitlyExtrapolatedMultigrid_W_Cycle(depth, sol, rhs, res);
            else
                g.implicitlyExtrapolatedMultigrid_F_Cycle(depth, sol, rhs, res);
        }
    }
    static void build_rhs_f(GMGPolar& g, const Level& l, Vector<double>& v) { g.build_rhs_f(l, v); }
    static void discretize_rhs_f(GMGPolar& g, const Level& l, Vector<double>& v) { g.discretize_rhs_f(l, v); }
    static int preSteps(const GMGPolar& g) { return g.pre_smoothing_steps_; }
    static int postSteps(const GMGPolar& g) { return g.post_smoothing_steps_; }
};
