// Reproducibility driver (C12). usage: drv_repro solver <cli args...>   -> prints a hash and the solution as raw doubles to stdout (binary file path in argv)
//                               drv_repro kernels <seed> <threads>
#include <cmath>
#include <cstring>
#include <fstream>
#include <iostream>
#include <random>
#include "verif_access.h"

static uint64_t fnv(const void* p, size_t n)
{
    uint64_t h = 1469598103934665603ull;
    auto b     = (const unsigned char*)p;
    for (size_t i = 0; i < n; i++) {
        h ^= b[i];
        h *= 1099511628211ull;
    }
    return h;
}

int main(int argc, char** argv)
{
    std::string mode = argc > 1 ? argv[1] : "";
    if (mode == "solver") {
        // argv[2] = output file for the solution vector, rest = CLI options
        std::vector<char*> av = {argv[0]};
        for (int i = 3; i < argc; i++)
            av.push_back(argv[i]);
        GMGPolar g;
        g.setParameters((int)av.size(), av.data());
        g.verbose(0);
        g.absoluteTolerance(-1.0);
        g.relativeTolerance(-1.0);
        g.setup();
        g.solve();
        const auto& u = g.solution();
        std::ofstream o(argv[2], std::ios::binary);
        o.write((const char*)u.begin(), u.size() * sizeof(double));
        double mx = 0;
        for (int i = 0; i < u.size(); i++)
            mx = std::max(mx, fabs(u[i]));
        std::cout << "{\"hash\":\"" << std::hex << fnv(u.begin(), u.size() * sizeof(double)) << std::dec << "\",\"n\":" << u.size()
                  << ",\"iters\":" << g.numberOfIterations() << ",\"max\":" << mx << "}" << std::endl;
        return 0;
    }
    if (mode == "operators") {
        // argv[2] = output file (all operator outputs concatenated), rest = CLI options; every operator of the finest level and the
        // transfers between level 0 and 1 is applied once to fixed pseudo-random vectors
        std::vector<char*> av = {argv[0]};
        for (int i = 3; i < argc; i++)
            av.push_back(argv[i]);
        GMGPolar g;
        g.setParameters((int)av.size(), av.data());
        g.verbose(0);
        g.setup();
        using A   = GMGPolarVerifAccess;
        auto& lv  = A::levels(g);
        auto& ip  = A::interp(g);
        int N = lv[0].grid().numberOfNodes(), M = lv[1].grid().numberOfNodes();
        std::mt19937 gen(11);
        std::uniform_real_distribution<double> U(-1, 1);
        Vector<double> xf(N), ff(N), xc(M);
        for (int i = 0; i < N; i++) {
            xf[i] = U(gen);
            ff[i] = U(gen);
        }
        for (int i = 0; i < M; i++)
            xc[i] = U(gen);
        std::ofstream o(argv[2], std::ios::binary);
        std::cout << "{\"ops\":[";
        bool first = true;
        auto emit = [&](const char* name, const Vector<double>& r) {
            o.write((const char*)r.begin(), r.size() * sizeof(double));
            std::cout << (first ? "" : ",") << "{\"op\":\"" << name << "\",\"n\":" << r.size() << ",\"hash\":\"" << std::hex
                      << fnv(r.begin(), r.size() * sizeof(double)) << std::dec << "\"}";
            first = false;
        };
        {
            Vector<double> r(N);
            lv[0].computeResidual(r, ff, xf);
            emit("residual", r);
        }
        try { // which smoothers level 0 owns depends on the extrapolation mode
            Vector<double> x(xf), tmp(N);
            lv[0].smoothing(x, ff, tmp);
            emit("smoothing", x);
        }
        catch (const std::runtime_error&) {
        }
        try {
            Vector<double> x(xf), tmp(N);
            lv[0].extrapolatedSmoothing(x, ff, tmp);
            emit("extrapolatedSmoothing", x);
        }
        catch (const std::runtime_error&) {
        }
        {
            Vector<double> x(lv.back().grid().numberOfNodes());
            for (int i = 0; i < x.size(); i++)
                x[i] = sin(0.37 * i);
            lv.back().directSolveInPlace(x);
            emit("directSolve", x);
        }
        {
            Vector<double> r(N);
            ip.applyProlongation(lv[1], lv[0], r, xc);
            emit("prolongation", r);
            ip.applyExtrapolatedProlongation(lv[1], lv[0], r, xc);
            emit("extrapolatedProlongation", r);
            ip.applyFMGInterpolation(lv[1], lv[0], r, xc);
            emit("FMGInterpolation", r);
        }
        {
            Vector<double> r(M);
            ip.applyRestriction(lv[0], lv[1], r, xf);
            emit("restriction", r);
            ip.applyExtrapolatedRestriction(lv[0], lv[1], r, xf);
            emit("extrapolatedRestriction", r);
            for (int i = 0; i < M; i++)
                r[i] = std::nan("");
            ip.applyInjection(lv[0], lv[1], r, xf);
            emit("injection", r);
        }
        {
            Vector<double> r(xf);
            A::extrapolatedResidual(g, 0, r, xc);
            emit("extrapolatedResidual", r);
        }
        {
            Vector<double> r(N);
            A::build_rhs_f(g, lv[0], r);
            A::discretize_rhs_f(g, lv[0], r);
            emit("rhs", r);
        }
        std::cout << "]}" << std::endl;
        return 0;
    }
    if (mode == "kernels") {
        unsigned seed = atoi(argv[2]);
        int threads   = atoi(argv[3]);
        omp_set_num_threads(threads);
        std::mt19937 gen(seed);
        std::uniform_real_distribution<double> U(-1, 1);
        long nfail = 0, ncase = 0;
        for (int n : {1, 7, 1000, 9999, 10000, 10001, 25000, 70001}) {
            Vector<double> x(n), y(n), z(n);
            std::vector<long double> xe(n), ye(n);
            for (int i = 0; i < n; i++) {
                x[i] = U(gen) * pow(10.0, 3 * U(gen));
                y[i] = U(gen);
                xe[i] = x[i];
                ye[i] = y[i];
            }
            auto fail = [&](const std::string& w) {
                nfail++;
                std::cout << "{\"fail\":true,\"n\":" << n << ",\"threads\":" << threads << ",\"what\":\"" << w << "\"}" << std::endl;
            };
            long double sabs = 0, sdot = 0, sdotabs = 0, s2 = 0, mxv = 0;
            for (int i = 0; i < n; i++) {
                sabs += fabsl(xe[i]);
                sdot += xe[i] * ye[i];
                sdotabs += fabsl(xe[i] * ye[i]);
                s2 += xe[i] * xe[i];
                mxv = std::max(mxv, fabsl(xe[i]));
            }
            const long double eps = 2.3e-16L;
            ncase += 9;
            if (fabsl(dot_product(x, y) - sdot) > n * eps * sdotabs + 1e-300L)
                fail("dot_product");
            if (fabsl(l1_norm(x) - sabs) > n * eps * sabs)
                fail("l1_norm");
            if (fabsl(l2_norm_squared(x) - s2) > n * eps * s2)
                fail("l2_norm_squared");
            if ((long double)infinity_norm(x) != mxv)
                fail("infinity_norm");
            z = x;
            add(z, y);
            for (int i = 0; i < n; i++)
                if (z[i] != x[i] + y[i]) {
                    fail("add");
                    break;
                }
            z = x;
            subtract(z, y);
            for (int i = 0; i < n; i++)
                if (z[i] != x[i] - y[i]) {
                    fail("subtract");
                    break;
                }
            z = x;
            linear_combination(z, 4.0 / 3.0, y, -1.0 / 3.0);
            for (int i = 0; i < n; i++)
                if (fabs(z[i] - (4.0 / 3.0 * x[i] + -1.0 / 3.0 * y[i])) > 4 * 2.3e-16 * (fabs(x[i]) * 4 / 3 + fabs(y[i]) / 3)) {
                    fail("linear_combination");
                    break;
                }
            z = x;
            multiply(z, -2.5);
            for (int i = 0; i < n; i++)
                if (z[i] != x[i] * -2.5) {
                    fail("multiply");
                    break;
                }
            assign(z, 3.25);
            for (int i = 0; i < n; i++)
                if (z[i] != 3.25) {
                    fail("assign");
                    break;
                }
            Vector<double> cp(x); // parallel copy construction / assignment above the threshold
            Vector<double> ca(3);
            ca = x;
            if (memcmp(cp.begin(), x.begin(), n * sizeof(double)) || memcmp(ca.begin(), x.begin(), n * sizeof(double)))
                fail("vector copy");
        }
        std::cout << "{\"summary\":true,\"cases\":" << ncase << ",\"failed\":" << nfail << "}" << std::endl;
        return 0;
    }
    return 2;
}
