// Minimal JSON reader/writer helpers for the harness drivers (no dependencies).
#pragma once
#include <cstdlib>
#include <map>
#include <memory>
#include <stdexcept>
#include <string>
#include <vector>

namespace mj
{
struct Value {
    enum Kind { Null, Bool, Num, Str, Arr, Obj } kind = Null;
    bool b   = false;
    double n = 0;
    std::string s;
    std::vector<Value> a;
    std::map<std::string, Value> o;

    const Value& operator[](const std::string& k) const
    {
        auto it = o.find(k);
        if (it == o.end())
            throw std::runtime_error("json: missing key " + k);
        return it->second;
    }
    bool has(const std::string& k) const { return o.find(k) != o.end(); }
    const Value& operator[](size_t i) const { return a.at(i); }
    const std::vector<Value>& arr() const
    {
        if (kind != Arr)
            throw std::runtime_error("json: not an array");
        return a;
    }
    int num() const
    {
        if (kind != Num)
            throw std::runtime_error("json: not a number");
        return (int)n;
    }
    double dbl() const
    {
        if (kind != Num)
            throw std::runtime_error("json: not a number");
        return n;
    }
    const std::string& str() const
    {
        if (kind != Str)
            throw std::runtime_error("json: not a string");
        return s;
    }
    bool boolean() const
    {
        if (kind != Bool)
            throw std::runtime_error("json: not a bool");
        return b;
    }
    size_t size() const { return kind == Arr ? a.size() : o.size(); }
};

struct Parser {
    const std::string& t;
    size_t p = 0;
    explicit Parser(const std::string& text)
        : t(text)
    {
    }
    void ws()
    {
        while (p < t.size() && (t[p] == ' ' || t[p] == '\n' || t[p] == '\t' || t[p] == '\r'))
            p++;
    }
    Value parse()
    {
        ws();
        if (p >= t.size())
            throw std::runtime_error("json: unexpected end");
        Value v;
        char c = t[p];
        if (c == '{') {
            v.kind = Value::Obj;
            p++;
            ws();
            if (t[p] == '}') {
                p++;
                return v;
            }
            while (true) {
                ws();
                Value k = parse();
                ws();
                if (t[p] != ':')
                    throw std::runtime_error("json: expected :");
                p++;
                v.o[k.s] = parse();
                ws();
                if (t[p] == ',') {
                    p++;
                    continue;
                }
                if (t[p] == '}') {
                    p++;
                    break;
                }
                throw std::runtime_error("json: expected , or }");
            }
        }
        else if (c == '[') {
            v.kind = Value::Arr;
            p++;
            ws();
            if (t[p] == ']') {
                p++;
                return v;
            }
            while (true) {
                v.a.push_back(parse());
                ws();
                if (t[p] == ',') {
                    p++;
                    continue;
                }
                if (t[p] == ']') {
                    p++;
                    break;
                }
                throw std::runtime_error("json: expected , or ]");
            }
        }
        else if (c == '"') {
            v.kind = Value::Str;
            p++;
            while (p < t.size() && t[p] != '"') {
                if (t[p] == '\\' && p + 1 < t.size()) {
                    p++;
                    char e = t[p];
                    v.s += e == 'n' ? '\n' : e == 't' ? '\t' : e;
                }
                else
                    v.s += t[p];
                p++;
            }
            p++;
        }
        else if (t.compare(p, 4, "true") == 0) {
            v.kind = Value::Bool;
            v.b    = true;
            p += 4;
        }
        else if (t.compare(p, 5, "false") == 0) {
            v.kind = Value::Bool;
            p += 5;
        }
        else if (t.compare(p, 4, "null") == 0) {
            p += 4;
        }
        else {
            char* end;
            v.kind = Value::Num;
            v.n    = strtod(t.c_str() + p, &end);
            if (end == t.c_str() + p)
                throw std::runtime_error("json: bad token at " + std::to_string(p));
            p = end - t.c_str();
        }
        return v;
    }
};
inline Value parse(const std::string& text)
{
    Parser ps(text);
    return ps.parse();
}
inline std::string escape(const std::string& s)
{
    std::string r;
    for (char c : s) {
        if (c == '"' || c == '\\') {
            r += '\\';
            r += c;
        }
        else if (c == '\n')
            r += "\\n";
        else
            r += c;
    }
    return r;
}
} // namespace mj
