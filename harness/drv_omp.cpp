// Access recorder for the OpenMP regions (C11, C12).  usage: drv_omp <case.json> <out.ndjson>
// The recorder is installed through the guarded hooks (VERIF_ITER / VERIF_TOUCH / VERIF_RANGE).  Region instances and
// barrier epochs are observed directly from the OpenMP runtime by interposing libgomp's entry points GOMP_parallel and
// GOMP_barrier (every thread of a team passes every barrier, so "number of barriers passed since the region began" is a
// schedule-independent epoch).  One record per executed loop iteration:
//   {"reg":region instance,"ep":epoch,"f":file,"l":line,"i":iteration,"t":thread,"team":n,"r":[cells],"w":[cells]}
// cells are 4-byte memory cells; an element is WRITTEN if it was reached through a non-const accessor and its value
// changed during the iteration, or it lies in a kernel range declared written.
#include <atomic>
#include <cmath>
#include <cstring>
#include <dlfcn.h>
#include <fstream>
#include <iostream>
#include <map>
#include <mutex>
#include <random>
#include <set>
#include <unordered_map>
#include "verif_access.h"
#include "mini_json.h"

static std::atomic<long> g_region{0};
static std::atomic<bool> g_on{false};
static FILE* g_out = nullptr;
static std::mutex g_mu;

struct Touch {
    int size;
    bool mut;
    unsigned char first[8];
};
struct TState {
    long region = -1;
    int barriers = 0;
    bool active  = false;
    const char* file = nullptr;
    int line = 0;
    long iter = 0;
    int tnum = 0, team = 1;
    std::unordered_map<const unsigned char*, Touch> touched;
    std::vector<std::tuple<const unsigned char*, long, bool>> ranges;
    // memory this thread allocated inside the current parallel region (thread-private scratch such as the solver
    // storage vectors declared in a parallel block): it exists once per thread, so it is not part of an iteration's
    // schedule-independent footprint
    std::vector<std::pair<uintptr_t, uintptr_t>> priv;
    long privRegion = -1;
    std::string buf;
    bool isPrivate(uintptr_t a) const
    {
        for (auto& p : priv)
            if (a >= p.first && a < p.second)
                return true;
        return false;
    }
};
static std::vector<TState*> g_states;
static TState& st()
{
    thread_local TState* s = nullptr;
    if (!s) {
        s = new TState();
        std::lock_guard<std::mutex> lk(g_mu);
        g_states.push_back(s);
    }
    return *s;
}
static void sync(TState& s)
{
    long r = g_region.load();
    if (s.region != r) {
        s.region   = r;
        s.barriers = 0;
    }
}
static void flush(TState& s)
{
    if (!s.active)
        return;
    s.active = false;
    std::set<uintptr_t> rd, wr;
    if (s.privRegion != s.region)
        s.priv.clear();
    for (auto& kv : s.touched) {
        if (s.isPrivate((uintptr_t)kv.first))
            continue;
        bool w = kv.second.mut && memcmp(kv.first, kv.second.first, kv.second.size) != 0;
        for (int b = 0; b < kv.second.size; b += 4)
            (w ? wr : rd).insert(((uintptr_t)kv.first + b) >> 2);
    }
    for (auto& rg : s.ranges) {
        if (s.isPrivate((uintptr_t)std::get<0>(rg)))
            continue;
        for (long b = 0; b < std::get<1>(rg); b += 4)
            (std::get<2>(rg) ? wr : rd).insert(((uintptr_t)std::get<0>(rg) + b) >> 2);
    }
    for (auto c : wr)
        rd.erase(c);
    std::string& o = s.buf;
    o += "{\"reg\":" + std::to_string(s.region) + ",\"ep\":" + std::to_string(s.barriers) + ",\"f\":\"" + s.file + "\",\"l\":" +
         std::to_string(s.line) + ",\"i\":" + std::to_string(s.iter) + ",\"t\":" + std::to_string(s.tnum) + ",\"team\":" +
         std::to_string(s.team) + ",\"r\":[";
    bool first = true;
    for (auto c : rd) {
        if (!first)
            o += ",";
        first = false;
        o += std::to_string(c);
    }
    o += "],\"w\":[";
    first = true;
    for (auto c : wr) {
        if (!first)
            o += ",";
        first = false;
        o += std::to_string(c);
    }
    o += "]}\n";
    s.touched.clear();
    s.ranges.clear();
}

struct Rec : gmgpolar_verif::AccessRecorder {
    void touch(const void* addr, int size, bool mut) override
    {
        if (!g_on)
            return;
        TState& s = st();
        if (!s.active)
            return; // accesses outside work-sharing iterations (sequential code) are not part of a region table
        auto p  = (const unsigned char*)addr;
        auto it = s.touched.find(p);
        if (it == s.touched.end()) {
            Touch t;
            t.size = size > 8 ? 8 : size;
            t.mut  = mut;
            memcpy(t.first, p, t.size);
            s.touched.emplace(p, t);
        }
        else if (mut)
            it->second.mut = true;
    }
    void range(const void* addr, long bytes, bool write) override
    {
        if (!g_on)
            return;
        TState& s = st();
        if (s.active)
            s.ranges.emplace_back((const unsigned char*)addr, bytes, write);
    }
    void iter(const char* file, int line, long i) override
    {
        if (!g_on)
            return;
        TState& s = st();
        flush(s);
        sync(s);
        s.active = true;
        s.file   = file;
        s.line   = line;
        s.iter   = i;
        s.tnum   = omp_get_thread_num();
        s.team   = omp_get_num_threads();
    }
};

// ---- replaceable allocation functions: remember what a thread allocates while it is inside a parallel region
static void* verifAlloc(std::size_t n)
{
    void* p = std::malloc(n ? n : 1);
    if (!p)
        throw std::bad_alloc();
    thread_local bool busy = false; // the recorder's own bookkeeping allocates, too
    if (g_on && !busy && omp_in_parallel()) {
        busy      = true;
        TState& s = st();
        long r    = g_region.load();
        if (s.privRegion != r) {
            s.priv.clear();
            s.privRegion = r;
        }
        s.priv.emplace_back((uintptr_t)p, (uintptr_t)p + n);
        busy = false;
    }
    return p;
}
void* operator new(std::size_t n) { return verifAlloc(n); }
void* operator new[](std::size_t n) { return verifAlloc(n); }
void operator delete(void* p) noexcept { std::free(p); }
void operator delete[](void* p) noexcept { std::free(p); }
void operator delete(void* p, std::size_t) noexcept { std::free(p); }
void operator delete[](void* p, std::size_t) noexcept { std::free(p); }

// ---- libgomp interposition: region instances and barrier epochs
extern "C" {
typedef void (*gomp_parallel_t)(void (*)(void*), void*, unsigned, unsigned);
void GOMP_parallel(void (*fn)(void*), void* data, unsigned num_threads, unsigned flags)
{
    static gomp_parallel_t real = (gomp_parallel_t)dlsym(RTLD_NEXT, "GOMP_parallel");
    if (g_on) {
        for (TState* s : g_states)
            flush(*s); // iterations of the previous region are complete (only the master runs here)
        g_region++;
    }
    real(fn, data, num_threads, flags);
    if (g_on) {
        for (TState* s : g_states)
            flush(*s);
        g_region++;
    }
}
static void passBarrier();
static void regionEdge();
static void passBarrier()
{
    if (g_on) {
        TState& s = st();
        flush(s);
        sync(s);
        s.barriers++;
    }
}
static void regionEdge()
{
    if (g_on) {
        for (TState* s : g_states)
            flush(*s);
        g_region++;
    }
}
void GOMP_barrier(void)
{
    static void (*real)(void) = (void (*)(void))dlsym(RTLD_NEXT, "GOMP_barrier");
    passBarrier();
    real();
}
// work-sharing loops with a non-static schedule and sections end in a runtime call that contains the barrier
void GOMP_loop_end(void)
{
    static void (*real)(void) = (void (*)(void))dlsym(RTLD_NEXT, "GOMP_loop_end");
    passBarrier();
    real();
}
bool GOMP_loop_end_cancel(void)
{
    static bool (*real)(void) = (bool (*)(void))dlsym(RTLD_NEXT, "GOMP_loop_end_cancel");
    passBarrier();
    return real();
}
void GOMP_sections_end(void)
{
    static void (*real)(void) = (void (*)(void))dlsym(RTLD_NEXT, "GOMP_sections_end");
    passBarrier();
    real();
}
bool GOMP_sections_end_cancel(void)
{
    static bool (*real)(void) = (bool (*)(void))dlsym(RTLD_NEXT, "GOMP_sections_end_cancel");
    passBarrier();
    return real();
}
// combined parallel + loop constructs with a non-static schedule open a region through their own entry points
#define VERIF_PARALLEL_LOOP_CHUNK(name)                                                                                \
    void name(void (*fn)(void*), void* data, unsigned nth, long a, long b, long c, long chunk, unsigned flags)         \
    {                                                                                                                  \
        typedef void (*fn_t)(void (*)(void*), void*, unsigned, long, long, long, long, unsigned);                      \
        static fn_t real = (fn_t)dlsym(RTLD_NEXT, #name);                                                              \
        regionEdge();                                                                                                  \
        real(fn, data, nth, a, b, c, chunk, flags);                                                                    \
        regionEdge();                                                                                                  \
    }
#define VERIF_PARALLEL_LOOP_NOCHUNK(name)                                                                              \
    void name(void (*fn)(void*), void* data, unsigned nth, long a, long b, long c, unsigned flags)                     \
    {                                                                                                                  \
        typedef void (*fn_t)(void (*)(void*), void*, unsigned, long, long, long, unsigned);                            \
        static fn_t real = (fn_t)dlsym(RTLD_NEXT, #name);                                                              \
        regionEdge();                                                                                                  \
        real(fn, data, nth, a, b, c, flags);                                                                           \
        regionEdge();                                                                                                  \
    }
VERIF_PARALLEL_LOOP_CHUNK(GOMP_parallel_loop_static)
VERIF_PARALLEL_LOOP_CHUNK(GOMP_parallel_loop_dynamic)
VERIF_PARALLEL_LOOP_CHUNK(GOMP_parallel_loop_guided)
VERIF_PARALLEL_LOOP_CHUNK(GOMP_parallel_loop_nonmonotonic_dynamic)
VERIF_PARALLEL_LOOP_CHUNK(GOMP_parallel_loop_nonmonotonic_guided)
VERIF_PARALLEL_LOOP_NOCHUNK(GOMP_parallel_loop_runtime)
VERIF_PARALLEL_LOOP_NOCHUNK(GOMP_parallel_loop_nonmonotonic_runtime)
VERIF_PARALLEL_LOOP_NOCHUNK(GOMP_parallel_loop_maybe_nonmonotonic_runtime)
void GOMP_parallel_sections(void (*fn)(void*), void* data, unsigned nth, unsigned count, unsigned flags)
{
    typedef void (*fn_t)(void (*)(void*), void*, unsigned, unsigned, unsigned);
    static fn_t real = (fn_t)dlsym(RTLD_NEXT, "GOMP_parallel_sections");
    regionEdge();
    real(fn, data, nth, count, flags);
    regionEdge();
}
}

static void dumpAll()
{
    for (TState* s : g_states) {
        flush(*s);
        fputs(s->buf.c_str(), g_out);
        s->buf.clear();
    }
}

// "ops" mode: one operator at a time on a harness-owned level, with the operand vectors registered by name so that the
// observed footprints can be compared with the intended tables of spec/ZebraSchedule.tla
static int opsMode(int argc, char** argv)
{
    int nr = atoi(argv[2]), nt = atoi(argv[3]), nc = atoi(argv[4]), dir = atoi(argv[5]), threads = atoi(argv[6]);
    g_out = fopen(argv[7], "w");
    static Rec rec;
    std::vector<double> rad(nr), ang(nt + 1);
    for (int i = 0; i < nr; i++)
        rad[i] = 0.05 + 1.25 * i / (nr - 1) + (i % 2 ? 0.01 : 0.0);
    rad[nr - 1] = 1.3;
    for (int j = 0; j <= nt; j++)
        ang[j] = 2 * M_PI * j / nt;
    ang[nt] = 2 * M_PI;
    double split = nc >= nr ? rad[nr - 1] + 1 : nc == 0 ? -1.0 : rad[nc];
    CzarnyGeometry geom(1.3, 0.3, 1.4);
    SonnendruckerGyroCoefficients coeff(1.3, 0.66);
    auto grid = std::make_unique<PolarGrid>(rad, ang, split);
    auto lc   = std::make_unique<LevelCache>(*grid, coeff, geom, true, true);
    Level L(0, std::move(grid), std::move(lc), ExtrapolationType::NONE, false);
    const PolarGrid& g = L.grid();
    int N = g.numberOfNodes();
    // a second level on the same shape carries the other strategy of every operator
    auto grid2 = std::make_unique<PolarGrid>(rad, ang, split);
    auto lc2   = std::make_unique<LevelCache>(*grid2, coeff, geom, true, true);
    Level L2(0, std::move(grid2), std::move(lc2), ExtrapolationType::NONE, false);
    const bool smoothable = nc >= 2 && nr - nc >= 3; // the smoothers need two circles and three radial nodes per line
    const bool refinable = smoothable && nr % 2 == 1 && nt % 4 == 0 && nc >= 3; // the extrapolated smoothers need a grid that has a coarse grid
    Vector<double> x(N), rhs(N), result(N), temp(N);
    std::mt19937 gen(3);
    std::uniform_real_distribution<double> U(-1, 1);
    for (int i = 0; i < N; i++) {
        x[i]   = U(gen);
        rhs[i] = U(gen);
    }
    auto cell = [](const double* p) { return (unsigned long long)(((uintptr_t)p) >> 2); };
    fprintf(g_out, "{\"arrays\":{\"x\":%llu,\"rhs\":%llu,\"result\":%llu,\"temp\":%llu},\"n\":%d,\"circles\":%d,\"node_of_index\":[", cell(x.begin()),
            cell(rhs.begin()), cell(result.begin()), cell(temp.begin()), N, g.numberSmootherCircles());
    for (int idx = 0; idx < N; idx++) {
        int ir, it;
        g.multiIndex(idx, ir, it);
        fprintf(g_out, "%s%d", idx ? "," : "", ir * nt + it);
    }
    fprintf(g_out, "]}\n");
    gmgpolar_verif::recorder() = &rec;
    g_on = true;
    // the assembly regions of every operator (matrix builds with their colour phases) are recorded as well
    fprintf(g_out, "{\"mark\":\"assembly\",\"reg\":%ld}\n", g_region.load());
    L.initializeResidual(geom, coeff, dir, threads, StencilDistributionMethod::CPU_GIVE);
    if (smoothable)
        L.initializeSmoothing(geom, coeff, dir, threads, StencilDistributionMethod::CPU_TAKE);
    L.initializeDirectSolver(geom, coeff, dir, threads, StencilDistributionMethod::CPU_GIVE);
    L2.initializeResidual(geom, coeff, dir, threads, StencilDistributionMethod::CPU_TAKE);
    if (smoothable)
        L2.initializeSmoothing(geom, coeff, dir, threads, StencilDistributionMethod::CPU_GIVE);
    L2.initializeDirectSolver(geom, coeff, dir, threads, StencilDistributionMethod::CPU_TAKE);
    if (refinable) {
        L.initializeExtrapolatedSmoothing(geom, coeff, dir, threads, StencilDistributionMethod::CPU_TAKE);
        L2.initializeExtrapolatedSmoothing(geom, coeff, dir, threads, StencilDistributionMethod::CPU_GIVE);
    }
    dumpAll();
    fprintf(g_out, "{\"mark\":\"residualGive\",\"reg\":%ld}\n", g_region.load());
    L.computeResidual(result, rhs, x);
    dumpAll();
    if (smoothable) {
        fprintf(g_out, "{\"mark\":\"smootherTake\",\"reg\":%ld}\n", g_region.load());
        L.smoothing(x, rhs, temp);
        dumpAll();
    }
    if (refinable) {
        fprintf(g_out, "{\"mark\":\"xsmootherTake\",\"reg\":%ld}\n", g_region.load());
        L.extrapolatedSmoothing(x, rhs, temp);
        dumpAll();
    }
    fprintf(g_out, "{\"mark\":\"residualTake\",\"reg\":%ld}\n", g_region.load());
    L2.computeResidual(result, rhs, x);
    dumpAll();
    if (smoothable) {
        fprintf(g_out, "{\"mark\":\"smootherGive\",\"reg\":%ld}\n", g_region.load());
        L2.smoothing(x, rhs, temp);
        dumpAll();
    }
    if (refinable) {
        fprintf(g_out, "{\"mark\":\"xsmootherGive\",\"reg\":%ld}\n", g_region.load());
        L2.extrapolatedSmoothing(x, rhs, temp);
        dumpAll();
    }
    fprintf(g_out, "{\"mark\":\"directGive\",\"reg\":%ld}\n", g_region.load());
    result = rhs;
    L.directSolveInPlace(result);
    dumpAll();
    fprintf(g_out, "{\"mark\":\"directTake\",\"reg\":%ld}\n", g_region.load());
    result = rhs;
    L2.directSolveInPlace(result);
    g_on = false;
    dumpAll();
    fprintf(g_out, "{\"mark\":\"end\",\"reg\":%ld}\n", g_region.load());
    fclose(g_out);
    std::cout << "{\"summary\":true,\"circles\":" << g.numberSmootherCircles() << "}" << std::endl;
    return 0;
}

int main(int argc, char** argv)
{
    if (argc >= 8 && std::string(argv[1]) == "ops")
        return opsMode(argc, argv);
    if (argc < 3)
        return 2;
    std::ifstream in(argv[1]);
    std::string text((std::istreambuf_iterator<char>(in)), std::istreambuf_iterator<char>());
    mj::Value c = mj::parse(text);
    g_out       = fopen(argv[2], "w");
    static Rec rec;
    gmgpolar_verif::recorder() = &rec;
    // a whole solver run (setup + solve) on a small grid: every parallel region instance the library executes
    std::vector<std::string> args = {"drv"};
    for (const auto& a : c["args"].arr())
        args.push_back(a.str());
    std::vector<char*> av;
    for (auto& s : args)
        av.push_back(s.data());
    GMGPolar g;
    g.setParameters((int)av.size(), av.data());
    g.verbose(0);
    g_on = true;
    g.setup();
    fprintf(g_out, "{\"mark\":\"setup-done\",\"reg\":%ld}\n", g_region.load());
    g.solve();
    g_on = false;
    dumpAll();
    fprintf(g_out, "{\"mark\":\"end\",\"reg\":%ld,\"iterations\":%d}\n", g_region.load(), g.numberOfIterations());
    fclose(g_out);
    std::cout << "{\"summary\":true,\"regions\":" << g_region.load() / 2 << ",\"nr\":" << g.grid().nr() << ",\"nt\":" << g.grid().ntheta()
              << ",\"circles\":" << g.grid().numberSmootherCircles() << "}" << std::endl;
    return 0;
}
