// Conformance driver for spec/Stencil.tla (C03-C07): the real residual / direct solver / smoother / extrapolated
// smoother operators are built on TLC's instances (synthetic geometry realising the integer coefficient fields) and
// compared with the exact table: matrix entries by unit-vector probing, sweeps against a dense block relaxation
// computed from the table.
// usage: drv_stencil <tables.ndjson> <what> <threads>     what = residual | direct | smoother | xsmoother | spd
#include <cmath>
#include <cstring>
#include <fstream>
#include <iostream>
#include <random>
#include "verif_access.h"
#include "mini_json.h"

using Vec = Vector<double>;
using LD  = long double;

// ---- synthetic input functions realising arr, art, |det| per node and beta per radius (alpha = 1)
struct Fields {
    std::vector<double> rad, ang;
    std::vector<double> Jrr, Jtt, Jtr; // per node ir * nt + it
    std::vector<double> beta;
    int nt;
    int nodeOf(double r, double theta) const
    {
        int ir = 0, it = 0;
        double best = 1e300;
        for (size_t i = 0; i < rad.size(); i++)
            if (fabs(rad[i] - r) < best) {
                best = fabs(rad[i] - r);
                ir   = (int)i;
            }
        best = 1e300;
        for (int j = 0; j < nt; j++) {
            double d = fabs(ang[j] - theta);
            d        = std::min(d, fabs(d - 2 * M_PI));
            if (d < best) {
                best = d;
                it   = j;
            }
        }
        return ir * nt + it;
    }
};
static double g_scale = 1.0; // uniform scale of the diffusion and reaction coefficients (the interior rows of the operator)
struct SynGeometry : DomainGeometry {
    const Fields& f;
    explicit SynGeometry(const Fields& ff)
        : f(ff)
    {
    }
    double Fx(const double& r, const double& t, const double&, const double&) const override { return r * cos(t); }
    double Fy(const double& r, const double& t, const double&, const double&) const override { return r * sin(t); }
    double dFx_dr(const double& r, const double& t, const double&, const double&) const override { return f.Jrr[f.nodeOf(r, t)]; }
    double dFy_dr(const double& r, const double& t, const double&, const double&) const override { return f.Jtr[f.nodeOf(r, t)]; }
    double dFx_dt(const double&, const double&, const double&, const double&) const override { return 0.0; }
    double dFy_dt(const double& r, const double& t, const double&, const double&) const override { return f.Jtt[f.nodeOf(r, t)]; }
};
struct SynCoeff : DensityProfileCoefficients {
    const Fields& f;
    explicit SynCoeff(const Fields& ff)
        : f(ff)
    {
    }
    double alpha(const double&) const override { return g_scale; }
    double beta(const double& r) const override
    {
        size_t ir = 0;
        for (size_t i = 0; i < f.rad.size(); i++)
            if (fabs(f.rad[i] - r) < fabs(f.rad[ir] - r))
                ir = i;
        return g_scale * f.beta[ir];
    }
    double getAlphaJump() const override { return 0.0; }
};

struct SynSource : SourceTerm {
    const Fields& f;
    explicit SynSource(const Fields& ff)
        : f(ff)
    {
    }
    double rhs_f(const double& r, const double& t, const double&, const double&) const override { return 1.0 + 0.01 * f.nodeOf(r, t); }
};
struct SynBoundary : BoundaryConditions {
    const Fields& f;
    explicit SynBoundary(const Fields& ff)
        : f(ff)
    {
    }
    double u_D(const double& r, const double& t, const double&, const double&) const override { return 5.0 + 0.02 * f.nodeOf(r, t); }
    double u_D_Interior(const double& r, const double& t, const double&, const double&) const override { return -3.0 - 0.02 * f.nodeOf(r, t); }
};

static LD frac(const mj::Value& w) { return (LD)w[0].dbl() / (LD)w[1].dbl(); }

struct Instance {
    int nr, nt, nc, N;
    bool dir;
    double M, detScale; // angular units per circle; real |det DF| = integer det * detScale
    Fields F;
    std::vector<std::vector<LD>> A; // dense table, node = ir * nt + it
    std::vector<std::vector<int>> lines; // node lists in sweep order
    std::vector<char> dirichlet, coarse;
    double splitRadius;
};
static Instance load(const mj::Value& t)
{
    Instance I;
    I.nr = t["nr"].num();
    I.nt = t["nt"].num();
    I.nc = t["nc"].num();
    I.N  = I.nr * I.nt;
    I.dir = t["dir"].boolean();
    double M = 0;
    for (int j = 0; j < I.nt; j++)
        M += t["k"][j].dbl();
    const double u = 2 * M_PI / M;
    I.M        = M;
    I.detScale = 1.0 / (u * u);
    I.F.nt = I.nt;
    I.F.rad.resize(I.nr);
    I.F.ang.resize(I.nt + 1);
    I.F.rad[0] = t["r0"].dbl() * u;
    for (int i = 1; i < I.nr; i++)
        I.F.rad[i] = I.F.rad[i - 1] + t["h"][i - 1].dbl() * u;
    double acc = 0;
    I.F.ang[0] = 0;
    for (int j = 1; j <= I.nt; j++) {
        acc += t["k"][j - 1].dbl();
        I.F.ang[j] = acc * u;
    }
    I.F.ang[I.nt] = 2 * M_PI;
    I.F.Jrr.resize(I.N);
    I.F.Jtt.resize(I.N);
    I.F.Jtr.resize(I.N);
    for (int n = 0; n < I.N; n++) {
        double a = t["arr"][n].dbl(), tt = t["art"][n].dbl(), d = t["det"][n].dbl() / (u * u);
        I.F.Jrr[n] = sqrt(d / (2 * a));
        I.F.Jtt[n] = 2 * a * I.F.Jrr[n];
        I.F.Jtr[n] = -tt * I.F.Jrr[n];
    }
    for (int i = 0; i < I.nr; i++)
        I.F.beta.push_back(t["beta"][i].dbl());
    I.A.assign(I.N, std::vector<LD>(I.N, 0));
    for (int n = 0; n < I.N; n++)
        for (const auto& c : t["rows"][n].arr())
            I.A[n][c["m"][0].num() * I.nt + c["m"][1].num()] += frac(c["w"]);
    I.dirichlet.assign(I.N, 0);
    I.coarse.assign(I.N, 0);
    for (int n = 0; n < I.N; n++) {
        int ir = n / I.nt, it = n % I.nt;
        I.dirichlet[n] = (ir == I.nr - 1) || (ir == 0 && I.dir);
        I.coarse[n]    = (ir % 2 == 0) && (it % 2 == 0);
    }
    if (g_scale != 1.0) // alpha -> s alpha, beta -> s beta scales every row of the operator except the identity rows of Dirichlet nodes
        for (int n = 0; n < I.N; n++)
            if (!I.dirichlet[n])
                for (auto& w : I.A[n])
                    w *= (LD)g_scale;
    for (const auto& l : t["lines"].arr()) {
        std::vector<int> nodes;
        if (l["kind"].str() == "C")
            for (int j = 0; j < I.nt; j++)
                nodes.push_back(l["id"].num() * I.nt + j);
        else
            for (int i = I.nc; i < I.nr; i++)
                nodes.push_back(i * I.nt + l["id"].num());
        I.lines.push_back(nodes);
    }
    I.splitRadius = I.nc == 0 ? -1.0 : I.nc == I.nr ? I.F.rad.back() + 1.0 : I.F.rad[I.nc];
    return I;
}

static std::vector<LD> denseSolve(std::vector<std::vector<LD>> M, std::vector<LD> b)
{
    int n = (int)M.size();
    for (int k = 0; k < n; k++) {
        int p = k;
        for (int i = k + 1; i < n; i++)
            if (fabsl(M[i][k]) > fabsl(M[p][k]))
                p = i;
        std::swap(M[k], M[p]);
        std::swap(b[k], b[p]);
        for (int i = k + 1; i < n; i++) {
            LD f = M[i][k] / M[k][k];
            if (f == 0)
                continue;
            for (int j = k; j < n; j++)
                M[i][j] -= f * M[k][j];
            b[i] -= f * b[k];
        }
    }
    for (int i = n - 1; i >= 0; i--) {
        for (int j = i + 1; j < n; j++)
            b[i] -= M[i][j] * b[j];
        b[i] /= M[i][i];
    }
    return b;
}

// exact zebra line relaxation computed from the table; extrapolated = only fine-only nodes are unknowns
static std::vector<LD> expectedSweep(const Instance& I, const std::vector<LD>& x0, const std::vector<LD>& f, bool extrapolated)
{
    std::vector<LD> x = x0;
    for (const auto& line : I.lines) {
        std::vector<int> U;
        for (int n : line)
            if (!extrapolated || !I.coarse[n])
                U.push_back(n);
        if (U.empty())
            continue;
        int m = (int)U.size();
        std::vector<std::vector<LD>> Mx(m, std::vector<LD>(m, 0));
        std::vector<LD> b(m);
        std::vector<int> pos(I.N, -1);
        for (int a = 0; a < m; a++)
            pos[U[a]] = a;
        for (int a = 0; a < m; a++) {
            int c = U[a];
            b[a]  = f[c];
            for (int q = 0; q < I.N; q++) {
                if (I.A[c][q] == 0)
                    continue;
                if (pos[q] >= 0)
                    Mx[a][pos[q]] += I.A[c][q];
                else
                    b[a] -= I.A[c][q] * x[q];
            }
        }
        std::vector<LD> s = denseSolve(Mx, b);
        for (int a = 0; a < m; a++)
            x[U[a]] = s[a];
    }
    return x;
}

struct Built {
    std::unique_ptr<Level> level;
    SynGeometry geom;
    SynCoeff coeff;
    Built(const Fields& F)
        : geom(F)
        , coeff(F)
    {
    }
};
static std::unique_ptr<Built> build(const Instance& I, bool cacheDP, bool cacheDG)
{
    auto B    = std::make_unique<Built>(I.F);
    auto grid = std::make_unique<PolarGrid>(I.F.rad, I.F.ang, I.splitRadius);
    auto lc   = std::make_unique<LevelCache>(*grid, B->coeff, B->geom, cacheDP, cacheDG);
    B->level  = std::make_unique<Level>(0, std::move(grid), std::move(lc), ExtrapolationType::COMBINED, false);
    return B;
}
// node (ir * nt + it) <-> the grid's own numbering
static int gidx(const PolarGrid& g, int n) { return g.index(n / g.ntheta(), n % g.ntheta()); }

static std::string probeResidual(const Instance& I, Built& B, const char* tag)
{
    const PolarGrid& g = B.level->grid();
    Vec x(I.N), f(I.N), r(I.N);
    assign(f, 0.0);
    for (int q = 0; q < I.N; q++) {
        assign(x, 0.0);
        x[gidx(g, q)] = 1.0;
        for (int i = 0; i < I.N; i++)
            r[i] = std::nan("");
        B.level->computeResidual(r, f, x);
        for (int c = 0; c < I.N; c++) {
            LD got = -(LD)r[gidx(g, c)], want = I.A[c][q];
            LD scale = 0;
            for (int z = 0; z < I.N; z++)
                scale = std::max(scale, fabsl(I.A[c][z]));
            if (!(fabsl(got - want) <= 1e-12L * (1 + scale))) {
                char buf[300];
                snprintf(buf, sizeof buf, "%s: A[(%d,%d)][(%d,%d)] = %.15Lg, stencil %.15Lg", tag, c / I.nt, c % I.nt, q / I.nt, q % I.nt, got, want);
                return buf;
            }
        }
    }
    // arbitrary u and f: residual = f - A u
    std::mt19937 gen(7);
    std::uniform_real_distribution<double> U(-1, 1);
    std::vector<LD> xe(I.N), fe(I.N);
    for (int n = 0; n < I.N; n++) {
        xe[n] = U(gen);
        fe[n] = U(gen) * 10;
        x[gidx(g, n)] = (double)xe[n];
        f[gidx(g, n)] = (double)fe[n];
    }
    B.level->computeResidual(r, f, x);
    for (int c = 0; c < I.N; c++) {
        LD want = fe[c], sc = fabsl(fe[c]);
        for (int q = 0; q < I.N; q++) {
            want -= I.A[c][q] * (LD)(double)xe[q];
            sc += fabsl(I.A[c][q] * xe[q]);
        }
        if (!(fabsl((LD)r[gidx(g, c)] - want) <= 1e-13L * (1 + sc)))
            return std::string(tag) + ": residual f - A u differs from the stencil at node (" + std::to_string(c / I.nt) + "," + std::to_string(c % I.nt) + ")";
    }
    return "";
}

int main(int argc, char** argv)
{
    if (argc < 4)
        return 2;
    std::ifstream in(argv[1]);
    std::string what = argv[2];
    int threads      = atoi(argv[3]);
    if (argc > 4)
        g_scale = atof(argv[4]);
    std::string line;
    long n = 0, nfail = 0, nops = 0;
    FILE* prog = fopen((std::string(argv[1]) + "." + what + ".progress").c_str(), "w");
    while (std::getline(in, line)) {
        if (line.empty())
            continue;
        n++;
        rewind(prog);
        fprintf(prog, "%ld\n", n);
        fflush(prog);
        mj::Value t = mj::parse(line);
        Instance I  = load(t);
        std::string fail;
        const auto give = StencilDistributionMethod::CPU_GIVE, take = StencilDistributionMethod::CPU_TAKE;
        bool smootherDomain = I.nc >= 2 && I.nr - I.nc >= 3;
        bool xDomain        = I.nc >= 3 && I.nr - I.nc >= 3 && I.nr % 2 == 1 && I.nt % 2 == 0;
        try {
            if (what == "residual") {
                const bool flags[4][2] = {{true, true}, {true, false}, {false, true}, {false, false}};
                for (int v = 0; v < 4 && fail.empty(); v++) {
                    auto B = build(I, flags[v][0], flags[v][1]);
                    B->level->initializeResidual(B->geom, B->coeff, I.dir, threads, give);
                    std::string tag = std::string("ResidualGive caches ") + (flags[v][0] ? "1" : "0") + (flags[v][1] ? "1" : "0");
                    fail = probeResidual(I, *B, tag.c_str());
                    nops++;
                }
                if (fail.empty()) {
                    auto B = build(I, true, true);
                    B->level->initializeResidual(B->geom, B->coeff, I.dir, threads, take);
                    fail = probeResidual(I, *B, "ResidualTake");
                    nops++;
                }
            }
            else if (what == "direct" || what == "spd") {
                // variants 0..3: give with the four cache-flag combinations; variant 4: take (needs both caches)
                const bool cflags[5][2] = {{true, true}, {true, false}, {false, true}, {false, false}, {true, true}};
                for (int variant = 0; variant < 5 && fail.empty(); variant++) {
                    const int meth = variant == 4;
                    auto B = build(I, cflags[variant][0], cflags[variant][1]);
                    B->level->initializeDirectSolver(B->geom, B->coeff, I.dir, threads, meth ? take : give);
                    const PolarGrid& g = B->level->grid();
                    std::mt19937 gen(11 + n);
                    std::uniform_real_distribution<double> U(-1, 1);
                    static std::vector<double> firstSol;
                    for (int rhsKind = 0; rhsKind < 3 && fail.empty() && what == "direct"; rhsKind++) {
                        Vec b(I.N);
                        std::vector<LD> be(I.N);
                        for (int q = 0; q < I.N; q++) {
                            double v = rhsKind == 0 ? (q == (int)(n % I.N) ? 1.0 : 0.0) : rhsKind == 1 ? U(gen) : U(gen) * pow(10.0, 8 * U(gen));
                            be[q]           = v;
                            b[gidx(g, q)] = v;
                        }
                        B->level->directSolveInPlace(b);
                        nops++;
                        LD worst = 0;
                        for (int c = 0; c < I.N; c++) {
                            LD r = be[c], sc = fabsl(be[c]);
                            for (int q = 0; q < I.N; q++) {
                                r -= I.A[c][q] * (LD)b[gidx(g, q)];
                                sc += fabsl(I.A[c][q] * (LD)b[gidx(g, q)]);
                            }
                            if (sc > 0)
                                worst = std::max(worst, fabsl(r) / sc);
                            if (!std::isfinite((double)r))
                                worst = 1;
                        }
                        if (!(worst <= 1e-11L))
                            fail = std::string(meth ? "DirectSolverTake" : "DirectSolverGive") + " caches " + (cflags[variant][0] ? "1" : "0") + (cflags[variant][1] ? "1" : "0") + ": residual of the solution w.r.t. the stencil: relative " + std::to_string((double)worst) + " (rhs kind " + std::to_string(rhsKind) + ")";
                        if (rhsKind == 1) {
                            if (meth == 0) {
                                firstSol.assign(I.N, 0);
                                for (int q = 0; q < I.N; q++)
                                    firstSol[q] = b[gidx(g, q)];
                            }
                        }
                    }
                    if (what == "spd" && meth == 0) { // the table restricted to non-Dirichlet unknowns: symmetric, Cholesky succeeds
                        std::vector<int> U2;
                        for (int q = 0; q < I.N; q++)
                            if (!I.dirichlet[q])
                                U2.push_back(q);
                        int m = (int)U2.size();
                        std::vector<std::vector<LD>> S(m, std::vector<LD>(m));
                        for (int a = 0; a < m; a++)
                            for (int b2 = 0; b2 < m; b2++)
                                S[a][b2] = I.A[U2[a]][U2[b2]];
                        for (int a = 0; a < m && fail.empty(); a++)
                            for (int b2 = 0; b2 < a; b2++)
                                if (S[a][b2] != S[b2][a])
                                    fail = "stencil table not symmetric";
                        for (int j = 0; j < m && fail.empty(); j++) {
                            for (int k2 = 0; k2 < j; k2++)
                                S[j][j] -= S[j][k2] * S[j][k2];
                            if (!(S[j][j] > 0)) {
                                fail = "interior operator not positive definite (Cholesky pivot " + std::to_string((double)S[j][j]) + ")";
                                break;
                            }
                            S[j][j] = sqrtl(S[j][j]);
                            for (int i = j + 1; i < m; i++) {
                                for (int k2 = 0; k2 < j; k2++)
                                    S[i][j] -= S[i][k2] * S[j][k2];
                                S[i][j] /= S[j][j];
                            }
                        }
                        nops++;
                    }
                }
            }
            else if (what == "rhs") {
                // build_rhs_f + discretize_rhs_f on level 0 and on the coarse level (cache derived from the finer one), cached and not
                for (int cdg = 0; cdg < 2 && fail.empty(); cdg++) {
                    GMGPolar G(std::make_unique<SynGeometry>(I.F), std::make_unique<SynCoeff>(I.F), std::make_unique<SynBoundary>(I.F),
                               std::make_unique<SynSource>(I.F));
                    G.DirBC_Interior(I.dir);
                    G.maxOpenMPThreads(threads);
                    auto B = build(I, true, cdg == 1);
                    const PolarGrid& g = B->level->grid();
                    Vec f0(I.N);
                    GMGPolarVerifAccess::build_rhs_f(G, *B->level, f0);
                    GMGPolarVerifAccess::discretize_rhs_f(G, *B->level, f0);
                    nops++;
                    for (int c = 0; c < I.N && fail.empty(); c++) {
                        int ir = c / I.nt;
                        LD w = frac(t["rhsw"][c]) * (2 * M_PI / I.M) * (2 * M_PI / I.M); // units: h and k are multiples of u = 2 pi / M
                        LD want = I.dirichlet[c] ? (ir == 0 ? -3.0 - 0.02 * c : 5.0 + 0.02 * c) : w * I.detScale * (1.0 + 0.01 * c);
                        if (!(fabsl((LD)f0[gidx(g, c)] - want) <= 1e-12L * (1 + fabsl(want))))
                            fail = "discretised rhs at node (" + std::to_string(ir) + "," + std::to_string(c % I.nt) + ") = " + std::to_string(f0[gidx(g, c)]) + ", specification " + std::to_string((double)want) + (cdg ? " (cached geometry)" : " (uncached geometry)");
                    }
                    if (fail.empty() && t["rhswc"].size() > 0 && cdg == 1) {
                        auto cg = std::make_unique<PolarGrid>(coarseningGrid(g));
                        auto cc = std::make_unique<LevelCache>(*B->level, *cg);
                        Level L1(1, std::move(cg), std::move(cc), ExtrapolationType::COMBINED, true);
                        const PolarGrid& g1 = L1.grid();
                        Vec f1(g1.numberOfNodes());
                        GMGPolarVerifAccess::build_rhs_f(G, L1, f1);
                        GMGPolarVerifAccess::discretize_rhs_f(G, L1, f1);
                        nops++;
                        int ntc = I.nt / 2;
                        for (int c = 0; c < g1.numberOfNodes() && fail.empty(); c++) {
                            int ir = c / ntc, it = c % ntc, fine = 2 * ir * I.nt + 2 * it;
                            bool dirichlet = ir == g1.nr() - 1 || (ir == 0 && I.dir);
                            LD w = frac(t["rhswc"][c]) * (2 * M_PI / I.M) * (2 * M_PI / I.M);
                            LD want = dirichlet ? (ir == 0 ? -3.0 - 0.02 * fine : 5.0 + 0.02 * fine) : w * I.detScale * (1.0 + 0.01 * fine);
                            if (!(fabsl((LD)f1[g1.index(ir, it)] - want) <= 1e-12L * (1 + fabsl(want))))
                                fail = "coarse-level discretised rhs at coarse node (" + std::to_string(ir) + "," + std::to_string(it) + ") = " + std::to_string(f1[g1.index(ir, it)]) + ", specification " + std::to_string((double)want);
                        }
                    }
                }
            }
            else if ((what == "smoother" && smootherDomain) || (what == "xsmoother" && xDomain)) {
                bool ex = what == "xsmoother";
                std::vector<double> res[2];
                const bool cflags[5][2] = {{true, true}, {true, false}, {false, true}, {false, false}, {true, true}};
                for (int variant = 0; variant < 5 && fail.empty(); variant++) {
                    const int meth = variant == 4;
                    auto B = build(I, cflags[variant][0], cflags[variant][1]);
                    if (ex)
                        B->level->initializeExtrapolatedSmoothing(B->geom, B->coeff, I.dir, threads, meth ? take : give);
                    else
                        B->level->initializeSmoothing(B->geom, B->coeff, I.dir, threads, meth ? take : give);
                    const PolarGrid& g = B->level->grid();
                    std::mt19937 gen(5 + n);
                    std::uniform_real_distribution<double> U(-1, 1);
                    for (int round = 0; round < 2 && fail.empty(); round++) {
                        Vec x(I.N), f(I.N), tmp(I.N);
                        std::vector<LD> xe(I.N), fe(I.N);
                        for (int q = 0; q < I.N; q++) {
                            fe[q] = U(gen) * 3;
                            f[gidx(g, q)] = (double)fe[q];
                        }
                        if (round == 0)
                            for (int q = 0; q < I.N; q++)
                                xe[q] = U(gen);
                        else { // the exact discrete solution is a fixed point
                            std::vector<LD> bb = fe;
                            xe                 = denseSolve(I.A, bb);
                            for (int q = 0; q < I.N; q++)
                                xe[q] = (LD)(double)xe[q];
                        }
                        for (int q = 0; q < I.N; q++) {
                            x[gidx(g, q)]   = (double)xe[q];
                            tmp[q]          = std::nan("");
                        }
                        std::vector<LD> want = expectedSweep(I, xe, fe, ex);
                        if (ex)
                            B->level->extrapolatedSmoothing(x, f, tmp);
                        else
                            B->level->smoothing(x, f, tmp);
                        nops++;
                        LD sc = 1;
                        for (auto v : want)
                            sc = std::max(sc, fabsl(v));
                        for (int q = 0; q < I.N && fail.empty(); q++) {
                            double got = x[gidx(g, q)];
                            if (ex && I.coarse[q]) {
                                double was = (double)xe[q];
                                if (memcmp(&got, &was, sizeof got) != 0)
                                    fail = "coarse node (" + std::to_string(q / I.nt) + "," + std::to_string(q % I.nt) + ") was moved by the extrapolated smoother";
                                continue;
                            }
                            if (!(fabsl((LD)got - want[q]) <= 1e-10L * sc)) {
                                char buf[300];
                                snprintf(buf, sizeof buf, "%s %s caches %d%d: node (%d,%d) = %.15g, exact line relaxation of the stencil gives %.15Lg%s", ex ? "ExtrapolatedSmoother" : "Smoother",
                                         meth ? "Take" : "Give", (int)cflags[variant][0], (int)cflags[variant][1], q / I.nt, q % I.nt, got, want[q], round ? " (started from the exact solution)" : "");
                                fail = buf;
                            }
                        }
                        if (round == 0 && !ex && fail.empty()) {
                            // C06: once the boundary values carry the data, a sweep never increases the energy norm of the error
                            std::vector<LD> bb = fe, xs = denseSolve(I.A, bb), e1(I.N), e2(I.N);
                            auto energy = [&](const std::vector<LD>& e) {
                                LD s = 0;
                                for (int a2 = 0; a2 < I.N; a2++)
                                    if (!I.dirichlet[a2])
                                        for (int b2 = 0; b2 < I.N; b2++)
                                            if (!I.dirichlet[b2])
                                                s += e[a2] * I.A[a2][b2] * e[b2];
                                return s;
                            };
                            for (int q = 0; q < I.N; q++)
                                e1[q] = (LD)x[gidx(g, q)] - xs[q];
                            B->level->smoothing(x, f, tmp);
                            for (int q = 0; q < I.N; q++)
                                e2[q] = (LD)x[gidx(g, q)] - xs[q];
                            LD en1 = energy(e1), en2 = energy(e2);
                            if (!(en2 <= en1 * (1 + 1e-10L) + 1e-20L))
                                fail = std::string("Smoother ") + (meth ? "Take" : "Give") + ": a sweep increased the energy norm of the error from " + std::to_string((double)en1) + " to " + std::to_string((double)en2);
                            B->level->smoothing(x, f, tmp); // (result of this extra sweep is not used)
                        }
                        if (round == 0) {
                            res[meth].resize(I.N);
                            for (int q = 0; q < I.N; q++)
                                res[meth][q] = x[gidx(g, q)];
                        }
                    }
                }
            }
        }
        catch (const std::exception& e) {
            fail = std::string("exception: ") + e.what();
        }
        if (!fail.empty()) {
            nfail++;
            if (nfail <= 25)
                std::cout << "{\"fail\":true,\"nr\":" << I.nr << ",\"nt\":" << I.nt << ",\"nc\":" << I.nc << ",\"dir\":" << (I.dir ? 1 : 0)
                          << ",\"what\":\"" << mj::escape(fail) << "\",\"inst\":" << n << "}" << std::endl;
        }
    }
    std::cout << "{\"summary\":true,\"tables\":" << n << ",\"operator_runs\":" << nops << ",\"failed\":" << nfail << "}" << std::endl;
    return 0;
}
