// Conformance driver for spec/SparseLUAlg.tla (C16) and numeric exploration beyond the model.
// usage: hdr_sparselu tables <file.ndjson> <seed>
//        hdr_sparselu numeric <seed> <count> [from]
#include <LinearAlgebra/csr_matrix.h>
#include <LinearAlgebra/sparseLUSolver.h>
#include <LinearAlgebra/vector.h>
#include <algorithm>
#include <cmath>
#include <cstdio>
#include <fstream>
#include <iostream>
#include <random>
#include <string>
#include <vector>
#include "mini_json.h"

using CSR = SparseMatrixCSR<double>;
using Trip = std::tuple<int, int, double>;
static long double frac(const mj::Value& f) { return (long double)f[0].dbl() / (long double)f[1].dbl(); }
static int g_n = 0; // dimension of the current instance
static double rhsval(int k, int i1) { return k == 1 ? (double)i1 : (i1 == g_n ? 3.0 : 0.0); }

// three ways to build the container from row-grouped triplets (columns inside a row in the given order)
static CSR buildCSR(int n, const std::vector<Trip>& e, int path)
{
    if (path == 0)
        return CSR(n, n, e);
    std::vector<int> start(n + 1, 0), ci;
    std::vector<double> va;
    for (auto& t : e) {
        start[std::get<0>(t) + 1]++;
        ci.push_back(std::get<1>(t));
        va.push_back(std::get<2>(t));
    }
    for (int i = 0; i < n; i++)
        start[i + 1] += start[i];
    if (path == 1)
        return CSR(n, n, va, ci, start);
    CSR M(n, n, [&](int i) { return start[i + 1] - start[i]; });
    for (int i = 0; i < n; i++)
        for (int k = 0; k < M.row_nz_size(i); k++) {
            M.row_nz_index(i, k) = ci[start[i] + k];
            M.row_nz_entry(i, k) = va[start[i] + k];
        }
    return M;
}

static int tables(const char* file, unsigned seed)
{
    std::mt19937 gen(seed);
    std::ifstream in(file);
    std::string line;
    long ncase = 0, nfail = 0, nbad = 0, nsolves = 0;
    while (std::getline(in, line)) {
        if (line.empty())
            continue;
        ncase++;
        mj::Value t = mj::parse(line);
        if (t["bad"].boolean()) {
            nbad++;
            continue;
        }
        int n = t["n"].num();
        std::string fail;
        for (int path = 0; path < 3 && fail.empty(); path++) {
            std::vector<Trip> e;
            for (int i = 0; i < n; i++) {
                std::vector<int> cols;
                for (int j = 0; j < n; j++)
                    if (t["A"][i][j]["p"].boolean())
                        cols.push_back(j);
                std::shuffle(cols.begin(), cols.end(), gen); // any storage order inside a row
                for (int j : cols)
                    e.emplace_back(i, j, t["A"][i][j]["v"].dbl());
            }
            CSR M = buildCSR(n, e, path);
            SparseLUSolver<double> S(M);
            g_n = n;
            for (const auto& sv : t["xs"].arr()) {
                int k = sv["k"].num();
                Vector<double> b(n);
                std::vector<double> b2(n);
                for (int i = 0; i < n; i++)
                    b[i] = b2[i] = rhsval(k, i + 1);
                S.solveInPlace(b);
                S.solveInPlace(b2.data());
                nsolves++;
                long double xm = 0;
                for (int i = 0; i < n; i++)
                    xm = std::max(xm, fabsl(frac(sv["x"][i])));
                for (int i = 0; i < n && fail.empty(); i++) {
                    if (!(fabsl(b[i] - frac(sv["x"][i])) <= 1e-10L * (1 + xm)))
                        fail = "path " + std::to_string(path) + ": x[" + std::to_string(i) + "]=" + std::to_string(b[i]) +
                               " model " + std::to_string((double)frac(sv["x"][i]));
                    if (b[i] != b2[i])
                        fail = "Vector and pointer overloads of solveInPlace disagree";
                }
            }
        }
        if (!fail.empty()) {
            nfail++;
            if (nfail <= 50)
                std::cout << "{\"fail\":true,\"n\":" << n << ",\"what\":\"" << mj::escape(fail) << "\",\"table\":" << line
                          << "}\n";
        }
    }
    std::cout << "{\"summary\":true,\"cases\":" << ncase << ",\"solves\":" << nsolves << ",\"model_bad\":" << nbad
              << ",\"failed\":" << nfail << "}\n";
    return 0;
}

static int numeric(unsigned seed, int count, int from)
{
    long nfail = 0, ncase = 0;
    double worst = 0;
    FILE* prog = fopen("/dev/stderr", "w");
    const int dims[] = {1, 2, 3, 5, 8, 20, 50, 120, 300};
    for (int c = from; c < count; c++) {
        std::mt19937 gen(seed * 7919u + c);
        std::uniform_real_distribution<double> U(-1, 1);
        int n    = dims[c % 9];
        int kind = (c / 9) % 4; // 0 plain, 1 rows scaled 1e-6..1e6, 2 rows scaled 1e-14..1e8, 3 band + stored zeros
        fprintf(prog, "@case %d n=%d kind=%d\n", c, n, kind);
        fflush(prog);
        std::vector<std::vector<std::pair<int, double>>> rows(n);
        for (int i = 0; i < n; i++) {
            int nz = std::min(n - 1, 1 + (int)(gen() % 6));
            std::vector<int> cols;
            for (int tries = 0; (int)cols.size() < nz && tries < 40; tries++) {
                int j = kind == 3 ? std::min(n - 1, std::max(0, i + (int)(gen() % 7) - 3)) : (int)(gen() % n);
                if (j != i && std::find(cols.begin(), cols.end(), j) == cols.end())
                    cols.push_back(j);
            }
            double sum = 0;
            for (int j : cols) {
                double v = (kind == 3 && gen() % 4 == 0) ? 0.0 : U(gen);
                rows[i].push_back({j, v});
                sum += fabs(v);
            }
            rows[i].push_back({i, (sum + 0.1 + fabs(U(gen))) * ((gen() % 2) ? 1 : -1)});
            double sc = kind == 1 ? pow(10.0, 6 * U(gen)) : kind == 2 ? pow(10.0, -3 + 11 * U(gen)) : 1.0;
            for (auto& p : rows[i])
                p.second *= sc;
            std::shuffle(rows[i].begin(), rows[i].end(), gen);
        }
        std::vector<Trip> e;
        for (int i = 0; i < n; i++)
            for (auto& p : rows[i])
                e.emplace_back(i, p.first, p.second);
        CSR M = buildCSR(n, e, c % 3);
        SparseLUSolver<double> S(M);
        std::string fail;
        double be = 0;
        for (int r = 0; r < 3 && fail.empty(); r++) { // several right-hand sides one after another
            std::vector<double> b(n), x(n);
            for (int i = 0; i < n; i++)
                b[i] = (r == 1 && i < n / 2) ? 0.0 : U(gen) * (r == 2 ? pow(10.0, 8 * U(gen)) : 1.0); // second rhs: exact zeros in front
            x = b;
            S.solveInPlace(x.data());
            for (int i = 0; i < n; i++) {
                long double res = b[i], den = fabs(b[i]);
                for (auto& p : rows[i]) {
                    res -= (long double)p.second * x[p.first];
                    den += fabsl((long double)p.second * x[p.first]);
                }
                if (!std::isfinite((double)res))
                    fail = "non-finite solution";
                if (den > 0)
                    be = std::max(be, (double)(fabsl(res) / den));
            }
        }
        worst = std::max(worst, be);
        if (fail.empty() && !(be <= 1e-11))
            fail = "componentwise backward error " + std::to_string(be);
        ncase++;
        if (!fail.empty()) {
            nfail++;
            if (nfail <= 20)
                std::cout << "{\"fail\":true,\"case\":" << c << ",\"n\":" << n << ",\"kind\":" << kind << ",\"what\":\""
                          << mj::escape(fail) << "\"}\n";
        }
    }
    std::cout << "{\"summary\":true,\"cases\":" << ncase << ",\"worst_backward_error\":" << worst << ",\"failed\":" << nfail
              << "}\n";
    return 0;
}

int main(int argc, char** argv)
{
    if (argc >= 4 && std::string(argv[1]) == "tables")
        return tables(argv[2], (unsigned)atoi(argv[3]));
    if (argc >= 4 && std::string(argv[1]) == "numeric")
        return numeric((unsigned)atoi(argv[2]), atoi(argv[3]), argc > 4 ? atoi(argv[4]) : 0);
    return 2;
}
