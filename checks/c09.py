"""C09 - FMG: exact high-order interpolation, nested iteration from the coarsest level.

Start-up half (this file, part 1): spec/Cycle.tla proves StartRefinesFMG - the code-shaped start-up over the work vectors
(all of them stale, including the finest solution) produces exactly FMGStart(L, cycle, its) for every number of levels,
FMG cycle, iteration count (0 included), with and without extrapolation.  The term is evaluated with public operators and
compared with solution() of a real object whose work vectors were poisoned (maxIterations = 0).  In addition life-cycle
traces of FMG solves on fresh and on used objects must show the nested-iteration event sequence (TraceSolver.tla).
Interpolation half (part 2): see checks/transfer_common.py (spec/Transfer.tla) - cubic/linear/constant reproduction.
"""
import json
import os
import random

import vlib
import solver_common as sc
import c10
from c13 import report_trace_result

LEVEL = "model_checking"


def run(rep, tier):
    thorough = tier == "thorough"
    vlib.sany("Cycle")
    rep.assumptions += [
        "start-up compared with tolerance 1e-11 relative against the term FMGStart evaluated with public operators",
        "work vectors of the object under test are poisoned with NaN before solve() (arbitrary old data)",
    ]
    terms = c10.tlc_terms(rep, tier, True)
    rng = random.Random(vlib.seed())
    if terms:
        sel = c10.select(terms, rng, 250 if thorough else 45, lambda k: k["L"] == 2 and k["its"] == 0)
        cases = []
        for i, t in enumerate(sel):
            k = t["cfg"]
            b = sc.BASES[i % len(sc.BASES)]
            cases.append({"id": len(cases) + 1, "base": sc.base_args(b, **c10.grid_for(k["L"])), "cfg": k, "term": t["term"], "defs": t["defs"], "start": "random"})
        rep.sample({"cfg": cases[0]["cfg"], "term": cases[0]["term"]})
        c10.run_cases(rep, cases, tier + "_c09", "fmgstart")
        rep.cov["configurations_model_checked"] = len(terms)
    # life-cycle traces with FMG on fresh and used objects
    hist = [{"ctor": c, "steps": s, "label": n} for n, c, s in [
        ("fmg two levels, its 0 (misc 2), reused", dict(sc.CTOR0, fmg=True, L=2, misc=2), [sc.SETUP, sc.SOLVE, sc.SOLVE, sc.S("maxIter", 0), sc.SOLVE]),
        ("fmg three levels extrapolated, reused after another size", dict(sc.CTOR0, fmg=True, ext=1, misc=1), [sc.SETUP, sc.SOLVE, sc.S("L", 2), sc.SETUP, sc.SOLVE, sc.S("misc", 3), sc.SOLVE]),
        ("fmg switched on later", dict(sc.CTOR0, ext=3), [sc.SETUP, sc.SOLVE, sc.S("fmg", True), sc.SETUP, sc.SOLVE]),
        ("fmg, F cycles, full grid smoothing", dict(sc.CTOR0, fmg=True, ext=2, misc=4, maxIter=2), [sc.SETUP, sc.SOLVE, sc.SOLVE]),
    ]]
    gen = [h for h in sc.generate_histories(rep, 120 if thorough else 30, 6, 300, "c09" + tier)
           if h["ctor"]["fmg"] or any(s["a"] == "SetOpt" and s["name"] == "fmg" and s["val"] for s in h["steps"])]
    rng.shuffle(gen)
    cs = sc.make_cases(hist + gen[:(40 if thorough else 6)], None, grids=[dict(nr_exp=4, ntheta_exp=5), dict(nr_exp=5, ntheta_exp=-1)])
    for c in cs:
        rep.case(key="hist:" + json.dumps([c["ctor"], c["steps"]], sort_keys=True), nontrivial=True)
    for i in range(0, len(cs), 8):
        res = sc.run_and_validate(rep, cs[i:i + 8], "%s_c09_%d" % (tier, i // 8))
        report_trace_result(rep, res, None)
        if not res.get("crashed"):
            rep.add_tlc(res["tlc"], "trace batch %d" % (i // 8))
    try:
        import transfer_common
        transfer_common.run_fmg_interpolation(rep, tier)
    except ImportError:
        rep.cov["interpolation_half"] = "not built yet"
    rep.cov["rule"] = ("start-up: every (L, FMG cycle, its, extrapolation, smoother mode) model-checked, two-level its=0 plus a seeded sample replayed; "
                       "histories with FMG validated as traces; non-trivial as in C10")


def replay(path):
    d = json.load(open(path))["replay"]
    print(json.dumps(d)[:3000])
    return 1
