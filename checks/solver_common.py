"""Shared machinery for the properties decided with spec/Solver.tla (C13, C20, C01 stop rule, C09 start-up):
history generation with TLC, replay + trace recording on the real object, trace validation with TLC."""
import json
import math
import os
import random

import vlib

ALL_FIXED = '{"F3","F4","F5","F6","F8","F18","F20"}'

# concrete problems the abstract histories are run on: (geometry, problem, alpha, beta, kappa_eps, delta_e, alpha_jump, DirBC)
BASES = [
    dict(geometry=0, problem=0, alpha_coeff=1, beta_coeff=0, kappa_eps=0.0, delta_e=0.0, alpha_jump=0.66, DirBC_Interior=0),
    dict(geometry=1, problem=1, alpha_coeff=2, beta_coeff=1, kappa_eps=0.3, delta_e=0.2, alpha_jump=0.4837, DirBC_Interior=1),
    dict(geometry=2, problem=2, alpha_coeff=1, beta_coeff=1, kappa_eps=0.3, delta_e=1.4, alpha_jump=0.66, DirBC_Interior=0),
    dict(geometry=2, problem=3, alpha_coeff=3, beta_coeff=1, kappa_eps=0.3, delta_e=1.4, alpha_jump=0.678, DirBC_Interior=0),
    dict(geometry=1, problem=0, alpha_coeff=0, beta_coeff=0, kappa_eps=0.3, delta_e=0.2, alpha_jump=0.5, DirBC_Interior=1),
]


def base_args(b, nr_exp=4, ntheta_exp=5, aniso=0, div=0):
    a = []
    for k, v in b.items():
        a += ["--" + k, str(v)]
    a += ["--nr_exp", str(nr_exp), "--ntheta_exp", str(ntheta_exp), "--anisotropic_factor", str(aniso),
          "--divideBy2", str(div), "--R0", "1e-5", "--Rmax", "1.3", "--verbose", "0", "--maxOpenMPThreads", "1"]
    return a


def gen_cfg(name, maxcalls, fixed=ALL_FIXED, settable=None, maxiter="{0, 2, 30}", ext="{0, 1, 2, 3}", misc="{0, 1, 2, 3, 4, 5}",
            invariants=True, gen=True):
    settable = settable or '{"ext", "fmg", "L", "take", "caches", "maxIter", "absOn", "relOn", "misc", "grid"}'
    path = os.path.join(vlib.BUILD, "cfg", name + ".cfg")
    os.makedirs(os.path.dirname(path), exist_ok=True)
    with open(path, "w") as f:
        f.write("SPECIFICATION Spec\nCONSTANTS\n  FIXED = %s\n  MaxCalls = %d\n  MaxIterDom = %s\n  ExtDom = %s\n  LDom = {2, 3}\n"
                "  MiscDom = %s\n  Settable = %s\n  GenHist = %s\n" % (fixed, maxcalls, maxiter, ext, misc, settable,
                                                                     "TRUE" if gen else "FALSE"))
        inv = ["ModeAgrees", "StartIsData", "StatsFresh", "StatsDefined", "HistoriesOwn", "StopTruth", "RejectOrRun", "TimingsOwn"] if invariants else []
        if gen:
            inv.append("GenEmit")
            f.write("CONSTRAINT GenConstraint\n")
        f.write("INVARIANTS " + " ".join(inv) + "\n")
    return path


# hand-written regression histories: the call patterns behind the defects found on the pinned tree (F3-F6, F8) and the
# refinement-loop pattern of convergence_order.cpp
def S(name, val):
    return {"a": "SetOpt", "name": name, "val": val}


SETUP, SOLVE = {"a": "Setup"}, {"a": "Solve"}
CTOR0 = dict(ext=0, fmg=False, L=3, take=False, caches=True, maxIter=30, absOn=True, relOn=True, exact=True, misc=0, grid=0)
CURATED = [
    ("F3: NONE then COMBINED on one object", CTOR0, [SETUP, SOLVE, S("ext", 3), SETUP, SOLVE]),
    ("F5: COMBINED, second solve without setup", dict(CTOR0, ext=3), [SETUP, SOLVE, S("misc", 4), SOLVE, SOLVE]),
    ("F20: COMBINED with FMG, second solve after a switch (the start-up must run in the re-armed mode)", dict(CTOR0, ext=3, fmg=True, L=3), [SETUP, SOLVE, SOLVE]),
    ("automatic level count, problem refined and set up again (the refinement loop of convergence_order.cpp)", dict(CTOR0, L=0), [SETUP, SOLVE, S("grid", 1), SETUP, SOLVE]),
    ("automatic level count with extrapolation and FMG, refined, take strategy", dict(CTOR0, L=0, ext=1, fmg=True, take=True), [SETUP, SOLVE, S("grid", 1), SETUP, SOLVE, SOLVE]),
    ("F20: COMBINED with FMG, solve twice, set up again, solve", dict(CTOR0, ext=3, fmg=True, L=2), [SETUP, SOLVE, SOLVE, SETUP, SOLVE]),
    ("F4/F6: zero-iteration solve after a real one", CTOR0, [SETUP, SOLVE, S("maxIter", 0), SOLVE]),
    ("F6: both tolerances off", dict(CTOR0, maxIter=2), [SETUP, S("absOn", False), S("relOn", False), SOLVE, S("absOn", True), SOLVE]),
    ("F8: FMG with two levels on a used object", dict(CTOR0, fmg=True, L=2), [SETUP, SOLVE, S("maxIter", 0), SOLVE]),
    ("F8: FMG three levels, extrapolated", dict(CTOR0, fmg=True, ext=1), [SETUP, SOLVE, S("misc", 1), SOLVE]),
    ("take without caches is rejected, object stays usable", dict(CTOR0, take=True), [SETUP, SOLVE, S("caches", False), SETUP, SOLVE, S("caches", True), SETUP, SOLVE]),
    ("refinement loop (convergence_order.cpp: divideBy2 = 0, 1 on one object)", dict(CTOR0, ext=1, fmg=True, misc=4), [SETUP, SOLVE, S("grid", 1), SETUP, SOLVE, S("grid", 0), SETUP, SOLVE]),
    ("level cap changes", dict(CTOR0, ext=1, fmg=True), [SETUP, SOLVE, S("L", 2), SETUP, SOLVE, S("L", 3), SETUP, SOLVE]),
    ("mode 2 full grid smoothing, budget stop", dict(CTOR0, ext=2, maxIter=2), [SETUP, SOLVE, SOLVE]),
    ("no exact solution", dict(CTOR0, exact=False, ext=3), [SETUP, SOLVE, S("ext", 1), SETUP, SOLVE]),
]


def generate_histories(rep, n_sim, maxcalls, depth, tag):
    """TLC simulation of Solver.tla produces life-cycle histories (abstract options)."""
    cfg = gen_cfg("solver_gen_%s" % tag, maxcalls, invariants=False)
    r = vlib.tlc("Solver", cfg, simulate=n_sim, depth=depth, workers=4, tag="solvergen" + tag, timeout=900)
    if r.rc != 0:
        raise vlib.HarnessError("history generation failed:\n" + r.out[-3000:])
    rep.add_tlc(r, "history generation (simulate num=%d depth=%d)" % (n_sim, depth))
    seen, out = set(), []
    for c in r.cases:
        k = json.dumps(c, sort_keys=True)
        if k in seen:
            continue
        seen.add(k)
        if sum(1 for s in c["steps"] if s["a"] == "Solve") >= 1:
            out.append(c)
    return out


def make_cases(histories, rng, bases=None, first_id=1, grids=None):
    cases = []
    bases = bases or BASES
    for i, h in enumerate(histories):
        b = bases[i % len(bases)] if rng is None else rng.choice(bases)
        g = (grids[i % len(grids)] if grids else dict())
        cases.append({"id": first_id + i, "base": base_args(b, **g), "ctor": h["ctor"], "steps": h["steps"], "label": h.get("label", ""), "c01": 0})
    return cases


def run_and_validate(rep, cases, label, timeout=2400, variant="gcc"):
    """Replay cases on the real code with trace recording, then validate the trace against TraceSolver.tla.
    Returns dict(accepted, progress, violated_invariant, trace_path, events, tlc)."""
    exe = os.path.join(vlib.build(["drv_solver"], variant), "drv_solver")
    cdir = os.path.join(vlib.BUILD, "cases")
    os.makedirs(cdir, exist_ok=True)
    cpath = os.path.join(cdir, "solver_%s.ndjson" % label)
    tpath = os.path.join(cdir, "solver_%s.trace.ndjson" % label)
    with open(cpath, "w") as f:
        for c in cases:
            f.write(json.dumps(c, separators=(",", ":")) + "\n")
    rc, recs, out = vlib.run_driver(exe, [cpath, tpath], timeout=timeout)
    if rc != 0 or not any(r.get("summary") for r in recs):
        return {"crashed": True, "rc": rc, "out": out[-1500:], "trace_path": tpath, "cases_path": cpath}
    if not os.path.exists(tpath) or os.path.getsize(tpath) == 0:      # the cases ran but not a single hook fired
        return {"crashed": True, "rc": rc, "out": "the driver completed but recorded no event at all: " + out[-800:], "trace_path": tpath, "cases_path": cpath}
    res = validate_trace(tpath, label)
    res["cases_path"] = cpath
    res["crashed"] = False
    if res.get("ops_tlc") is not None:
        rep.add_tlc(res["ops_tlc"], "operator-level trace (TraceOps.tla) %s: %d events" % (label, res.get("ops_events", 0)))
        rep.cov["operator_events_validated"] = rep.cov.get("operator_events_validated", 0) + res.get("ops_events", 0)
        if res.get("ops_drift"):
            rep.cov.setdefault("operator_model_drift", []).append(res["ops_drift"])
    return res


OPS_KEEP = {"Ctor", "SetupBegin", "SetupBuilt", "SetupThrew", "SolveThrew", "SolveEnter", "InitZero", "FMGDirect", "FMGInterp", "FMGCycle",
            "SolveBegin", "ResNorm", "CycleRun", "CycleDone", "SolveEnd", "Op"}


def split_trace(tpath):
    """one recording, two views: the life-cycle view (everything but operator events) for TraceSolver.tla and the
    operator view (markers + Op events) for TraceOps.tla.  Lines are copied verbatim, nothing is rewritten."""
    life, ops = tpath + ".life", tpath + ".ops"
    nl = no = 0
    with open(life, "w") as fl, open(ops, "w") as fo:
        for line in open(tpath):
            if not line.strip():
                continue
            e = json.loads(line).get("e")
            if e != "Op":
                fl.write(line)
                nl += 1
            if e in OPS_KEEP:
                fo.write(line)
                no += 1
    return life, nl, ops, no


def _progress(r):
    prog = 0
    for line in r.out.splitlines():
        if line.startswith('<<"@@L"'):
            try:
                prog = max(prog, int(line.split(",")[1].strip(" >")))
            except Exception:
                pass
    return prog


def _trace_tlc(module, cfgname, cfgtext, opath, tag):
    cfg = os.path.join(vlib.BUILD, "cfg", cfgname)
    os.makedirs(os.path.dirname(cfg), exist_ok=True)
    open(cfg, "w").write(cfgtext)
    r = vlib.tlc(module, cfg, workers=1, env={"TRACE": os.path.abspath(opath)}, tag=tag, timeout=3000, heap="8g", stack="512m")
    res = {"tlc": r, "progress": _progress(r), "trace_path": opath, "accepted": False, "violated": None}
    if r.rc == 12 and r.violation == "NotAccepted":
        res["accepted"] = True
    elif r.rc == 12:
        res["violated"] = r.violation
    elif r.rc != 0:
        raise vlib.HarnessError("%s trace validation failed (rc=%s):\n%s" % (module, r.rc, r.out[-3000:]))
    return res


def validate_ops(opath, label):
    """operator view of a recording.  First the strict question (spec/TraceOps.tla): are the instructions between two markers
    exactly the program of CycleOps.tla?  If so the properties follow (ProgramAgrees + CycleRefinesMG are model-checked).  If not,
    the code was restructured or is wrong: spec/TraceSem.tla INTERPRETS the recorded instructions on the data-flow machine and
    evaluates the properties themselves (iterate = MG/MGX/FMGStart term, residual term, rhs set-up, right-hand sides preserved).
    Only a semantic rejection is a violation; a strict rejection that is semantically fine is reported as drift."""
    res = _trace_tlc("TraceOps", "trace_ops.cfg",
                     "SPECIFICATION TraceSpec\nCONSTANTS\n  LSet = {2}\n  NuSet = {0}\n  ItsSet = {0}\n  Defects = {}\n  EmitTerms = FALSE\n"
                     "CONSTRAINT Progress\nINVARIANTS NotAccepted Bounded\n", opath, "ops" + label)
    if res["accepted"]:
        return res
    sem = _trace_tlc("TraceSem", "trace_sem.cfg", "SPECIFICATION TraceSpec\nCONSTRAINT Progress\nINVARIANTS NotAccepted\n", opath, "sem" + label)
    sem["strict_progress"] = res["progress"]
    sem["strict_tlc"] = res["tlc"]
    if sem["accepted"]:
        lines = open(opath).read().splitlines()
        p = res["progress"]
        sem["drift"] = "the instructions recorded before line %d (%s) are not the program of CycleOps.tla, but their interpretation satisfies every property of TraceSem.tla" % (
            p, lines[p - 1][:160] if 0 < p <= len(lines) else "?")
        print("NOTE operator-level drift (not a violation): " + sem["drift"])
    return sem


def validate_trace(tpath, label):
    for suffix in (".life", ".ops"):      # a replay names the view that was rejected; both come from the same recording
        if tpath.endswith(suffix) and os.path.exists(tpath[:-len(suffix)]):
            tpath = tpath[:-len(suffix)]
    life, nlines, opath, nops = split_trace(tpath)
    cfg = os.path.join(vlib.BUILD, "cfg", "trace_solver.cfg")
    with open(cfg, "w") as f:
        f.write("SPECIFICATION TraceSpec\nCONSTANTS\n  FIXED = %s\n  MaxCalls = 1000000\n  MaxIterDom = {0,2,30,150}\n  ExtDom = {0,1,2,3}\n"
                "  LDom = {2,3,4,5,6}\n  MiscDom <- TraceMisc\n  Settable = {}\n  GenHist = FALSE\n"
                "CONSTRAINT Progress\n"
                "INVARIANTS ModeAgrees StartIsData StatsDefined HistoriesOwn StopTruth RejectOrRun TimingsOwn NotAccepted\n" % ALL_FIXED)
    r = vlib.tlc("TraceSolver", cfg, workers=1, env={"TRACE": life}, tag="trace" + label, timeout=1800, heap="8g")
    res = {"tlc": r, "events": nlines, "progress": _progress(r), "trace_path": life, "accepted": False, "violated": None, "ops_events": nops}
    if r.rc == 12 and r.violation == "NotAccepted":
        res["accepted"] = True
    elif r.rc == 12:
        res["violated"] = r.violation
    elif r.rc == 0:
        res["accepted"] = False       # no behaviour consumes the whole trace: rejected at line progress
    else:
        raise vlib.HarnessError("trace validation failed (rc=%s):\n%s" % (r.rc, r.out[-3000:]))
    if res["accepted"]:
        bad = rho_values(life)
        if bad:
            res.update(accepted=False, violated="RhoValue", progress=bad[0], rho_value=bad[1])
    if res["accepted"]:
        # the same recording, operator level: every cycle / start-up / residual evaluation / rhs set-up is the program of CycleOps.tla
        o = validate_ops(opath, label)
        res["ops_tlc"] = o["tlc"]
        if o.get("drift"):
            res["ops_drift"] = o["drift"]
        if not o["accepted"]:
            res.update(accepted=False, violated=o["violated"], progress=o["progress"], trace_path=opath, level="operators")
    return res


def rho_values(life):
    """Binding of the token <<"ratio", curNorm, initNorm>> of Solver.tla `ComputeStats` to numbers: the reduction factor logged at
    SolveEnd must be (r_j / r_0)^(1/m) for the LAST norm r_j recorded in THIS solve and m in {j, j+1} (j cycles lie between r_0 and
    r_j; after a budget stop the code divides by the number of cycles run, j+1) - a well-defined function of that solve (C20, C13).
    Returns (line number, text) of the first SolveEnd that is not, else None."""
    norms, n = [], 0
    for n, line in enumerate(open(life), 1):
        ev = json.loads(line)
        e = ev.get("e")
        if e in ("SolveBegin", "SolveEnter", "Reset", "Ctor"):
            norms = []
        elif e == "ResNorm":
            norms.append(float(ev["cur"]["v"]))
        elif e == "SolveEnd" and ev.get("nIter", 0) > 0 and len(norms) >= 2 and not ev["rho"].get("nan"):
            rho, j = float(ev["rho"]["v"]), len(norms) - 1
            if not (norms[0] > 0 and all(math.isfinite(x) for x in (rho, norms[0], norms[j]))):
                continue      # degenerate norms are judged by StatsDefined / the c01 obligation
            cands = [math.pow(norms[j] / norms[0], 1.0 / m) for m in (j, j + 1) if m >= 1]
            if not any(abs(rho - c) <= 1e-10 * max(abs(c), 1e-300) for c in cands):
                return n, ("SolveEnd reports the mean reduction factor %r, but the norms recorded in this solve (first %r, last %r after %d cycles, "
                           "%d iterations reported) give %s" % (rho, norms[0], norms[j], j, ev["nIter"], " or ".join("%r" % c for c in cands)))
    return None


def describe_rejection(res):
    """the first trace line no spec action can take, with context"""
    lines = open(res["trace_path"]).read().splitlines()
    p = res["progress"]      # highest l reached = index (1-based) of the first unconsumed line
    ctx = lines[max(0, p - 4):p]
    case = None
    for ln in reversed(lines[:p]):
        if '"e":"Ctor"' in ln:
            case = json.loads(ln).get("case")
            break
    return {"line": p, "case": case, "rejected_event": lines[p - 1] if 0 < p <= len(lines) else None, "context": ctx}
