"""C10 - each multigrid cycle is a consistent correction scheme (and C09's start-up half reuses this machinery).

spec/Cycle.tla: the cycles as a data-flow machine over the named work vectors of every level (code-shaped, statement by
statement, with the buffer rotation of the recursion) against the buffer-free mathematical definition MG/MGX/FMGStart.
TLC proves CycleRefinesMG, NoStale, RhsPreserved for every (levels, cycle kind, smoothing counts, extrapolation,
smoother mode).  TLC prints the mathematical term of every configuration; the harness evaluates it with the PUBLIC
operators of an independently set-up object and compares it with what the real private cycle returns when all scratch
vectors hold NaN (any use of stale data poisons the result).
"""
import json
import os
import random

import vlib
import solver_common as sc

LEVEL = "model_checking"


def cycle_cfg(name, lset, nuset, itsset, emit, defects="{}", module="CycleOps"):
    path = os.path.join(vlib.BUILD, "cfg", name + ".cfg")
    os.makedirs(os.path.dirname(path), exist_ok=True)
    with open(path, "w") as f:
        f.write("SPECIFICATION Spec\nCONSTANTS\n  LSet = %s\n  NuSet = %s\n  ItsSet = %s\n  Defects = %s\n  EmitTerms = %s\n"
                "INVARIANTS CycleRefinesMG NoStale RhsPreserved StartRefinesFMG%s%s\n"
                % (lset, nuset, itsset, defects, "TRUE" if emit else "FALSE", " ProgramAgrees ProgramClean SetupRhs" if module == "CycleOps" else "",
                   " Emit" if emit else ""))
    return path


def tlc_terms(rep, tier, want_fmg):
    thorough = tier == "thorough"
    r = vlib.tlc("CycleOps", cycle_cfg("cycle_%s" % tier, "{2,3,4,5}" if thorough else "{2,3,4}", "{0,1,2}", "{0,1,2}", True),
                 workers=8, stack="512m", heap="12g", tag="cycle" + tier, timeout=2400)
    rep.add_tlc(r, "Cycle.tla + CycleOps.tla all configurations (refinement of MG/MGX/FMGStart; the programs interpret to the code-shaped machine)")
    if not vlib.tlc_must_hold(r, "Cycle.tla"):
        rep.violation("model:" + r.violation, "Cycle.tla: %s violated\n%s" % (r.violation, vlib.counterexample(r)[:2500]),
                      replay={"tlc": vlib.counterexample(r)[:8000]})
        return []
    return [c for c in r.cases if c["cfg"]["fmg"] == want_fmg]


def grid_for(L):
    return dict(nr_exp=4 if L <= 3 else (5 if L == 4 else 6), ntheta_exp=-1)


def run_cases(rep, cases, label, keyprefix):
    exe = os.path.join(vlib.build(["drv_cycle"], "gcc"), "drv_cycle")
    path = os.path.join(vlib.BUILD, "cases", "cycle_%s.ndjson" % label)
    os.makedirs(os.path.dirname(path), exist_ok=True)
    with open(path, "w") as f:
        for c in cases:
            f.write(json.dumps(c, separators=(",", ":")) + "\n")
    tpath = os.path.join(vlib.BUILD, "cases", "cycle_%s.trace.ndjson" % label)
    rc, recs, out = vlib.run_driver(exe, [path, tpath], timeout=3000)
    byid = {r["case"]: r for r in recs if "case" in r}
    if rc != 0 or not any(r.get("summary") for r in recs):
        last = max(byid) if byid else 0
        nxt = [c for c in cases if c["id"] == last + 1]
        rep.violation(keyprefix + ":crash", "cycle driver crashed (rc=%s) after case %s: %s cfg=%s" % (rc, last, out[-400:], nxt[0]["cfg"] if nxt else None),
                      replay={"cases": path})
    nbit = 0
    for c in cases:
        r = byid.get(c["id"])
        if not r:
            continue
        k = c["cfg"]
        rep.case(key=json.dumps([k, c["start"], c["base"][:4]], sort_keys=True), nontrivial=(k["L"] > 2 or k["nu1"] + k["nu2"] > 0))
        nbit += r["bitwise"]
        if not r["ok"]:
            kind = "xresidual" if r["what"].startswith("extrapolated residual") else "nan" if "NaN" in r["what"] else "fixedpoint" if "moves it" in r["what"] else "exception" if r["what"].startswith("exception") else "value"
            rep.violation("%s:%s:%s%s" % (keyprefix, kind, "ext" if k["ext"] else "plain", "" if not k["fmg"] else ":fmg"),
                          "%s -- cfg=%s start=%s" % (r["what"], json.dumps(k, sort_keys=True), c["start"]),
                          replay={"case": {kk: c[kk] for kk in ("base", "cfg", "start")}})
    # the same executions at operator level: the instructions each real cycle performed (with the identities of their operand
    # vectors) must be the program of CycleOps.tla for that configuration
    if os.path.exists(tpath) and os.path.getsize(tpath) > 0:
        _life, _nl, opath, nops = sc.split_trace(tpath)
        o = sc.validate_ops(opath, label)
        rep.add_tlc(o["tlc"], "operator-level trace of the replayed cycles (TraceOps.tla): %d events" % nops)
        rep.cov["operator_events_validated"] = rep.cov.get("operator_events_validated", 0) + nops
        if o.get("drift"):
            rep.cov.setdefault("operator_model_drift", []).append(o["drift"])
        if not o["accepted"]:
            d = sc.describe_rejection(o)
            ev = json.loads(d["rejected_event"]) if d["rejected_event"] else {}
            cfgk = next((c["cfg"] for c in cases if c["id"] == d["case"]), None)
            rep.violation("%s:ops:%s" % (keyprefix, ev.get("op", ev.get("e"))),
                          "the instructions the real cycle executed do not compute what TraceSem.tla requires at event %s (nor are they the program of CycleOps.tla) (case %s cfg=%s, line %s) context=%s"
                          % (d["rejected_event"], d["case"], json.dumps(cfgk, sort_keys=True), d["line"], json.dumps(d["context"])[:1200]),
                          replay={"trace": opath, "line": d["line"], "case": d["case"], "cfg": cfgk})
    rep.traces(len(byid))
    rep.cov["bitwise_equal_cases"] = rep.cov.get("bitwise_equal_cases", 0) + nbit


def select(cases, rng, n, must):
    """keep all cases satisfying `must`, plus a random sample of the rest"""
    a = [c for c in cases if must(c["cfg"])]
    b = [c for c in cases if not must(c["cfg"])]
    rng.shuffle(a)
    rng.shuffle(b)
    a = a[:max(1, n // 3)]
    return a + b[:max(0, n - len(a))]


def run(rep, tier):
    thorough = tier == "thorough"
    vlib.sany("Cycle")
    vlib.sany("CycleOps")
    vlib.sany("TraceOps")
    rep.assumptions += [
        "the interpreter applies the PUBLIC Level/Interpolation operators of a second, independently set-up object",
        "comparison tolerance 1e-11 relative (bitwise equality is recorded, not required)",
        "exact-solution fixed point judged after converging the same iteration to 1e-13 (not for full-grid-smoothing mode 2)",
    ]
    terms = tlc_terms(rep, tier, False)
    if not terms:
        return
    rng = random.Random(vlib.seed())
    sel = select(terms, rng, 400 if thorough else 70,
                 lambda k: (k["L"] == 2 and k["nu1"] == 0 and k["nu2"] == 0) or (k["L"] == 3 and k["nu1"] == 1 and k["nu2"] == 1))
    cases = []
    for i, t in enumerate(sel):
        k = t["cfg"]
        b = sc.BASES[i % len(sc.BASES)]
        cases.append({"id": len(cases) + 1, "base": sc.base_args(b, **grid_for(k["L"])), "cfg": k, "term": t["term"], "defs": t["defs"], "start": "random"})
    # C10, first sentence: the converged solution is a fixed point of every cycle type
    ex = [t for t in terms if t["cfg"]["nu1"] >= 1 and t["cfg"]["nu2"] >= 1 and t["cfg"]["L"] <= 3 and (not t["cfg"]["ext"] or t["cfg"]["xs"])]
    rng.shuffle(ex)
    for i, t in enumerate(ex[:(40 if thorough else 8)]):
        b = sc.BASES[(i + 1) % len(sc.BASES)]
        cases.append({"id": len(cases) + 1, "base": sc.base_args(b, **grid_for(t["cfg"]["L"])), "cfg": t["cfg"], "term": t["term"], "defs": t["defs"], "start": "exact"})
    rep.sample({"cfg": cases[0]["cfg"], "term": cases[0]["term"], "defs": cases[0]["defs"]})
    run_cases(rep, cases, tier + "_c10", "cycle")
    rep.cov["exhaustive"] = False
    rep.cov["configurations_model_checked"] = len(terms)
    rep.cov["rule"] = ("TLC enumerates every (L, kind, nu1, nu2, extrapolation, smoother mode); the replay takes all two-level nu=0 and three-level "
                       "nu=1 configurations plus a seeded random sample, on 5 shipped problems; non-trivial = more than two levels or smoothing on")


def replay(path):
    d = json.load(open(path))["replay"]
    print(json.dumps(d)[:3000])
    return 1
