"""C03 - one discrete operator: give, take, cached, uncached agree.

spec/Stencil.tla is the documented stencil in exact rational arithmetic (take form): TLC proves Dirichlet rows = identity
and the 9-point / 7-point shape for every instance; ResidualGive (all four cache-flag combinations) and ResidualTake are
probed with unit vectors on the same instances - every matrix entry must equal the table - and on arbitrary u, f.
Coarse-level caches and the shipped geometries are covered by an implementation-vs-implementation run (drv_realgeom).
"""
import os
import vlib
import stencil_common as sc

LEVEL = "model_checking"


def run(rep, tier):
    vlib.sany("StencilMC")
    rep.assumptions += [
        "coefficient fields arr, art, |det DF| are integer patterns realised by a synthetic mapping (alpha = 1, att = (1+art^2)/(4 arr)); beta per radius",
        "entries compared with 1e-12 relative to the largest entry of the row",
        "the give form is not transcribed: it is bound to the take-form table by probing",
    ]
    tabs = sc.tables(rep, tier, "c03", "ac")
    sc.conformance(rep, tier, tabs, "residual", 160, "residual", threads=(1, 3) if tier == "thorough" else (1,), scales=(1.0, 1e-9, 1e7))
    try:
        import realgeom
        realgeom.run(rep, tier, "residual")
    except ImportError:
        rep.cov["real_geometries"] = "not built yet"
    rep.cov["exhaustive"] = False
    rep.cov["rule"] = ("TLC enumerates every instance of the families (grid size, spacings, split, boundary mode, R0, coefficient pattern); a seeded "
                       "sample is probed on the real operators; non-trivial = non-zero mixed coefficient art")


def replay(path):
    import json
    print(json.load(open(path))["replay"])
    return 1
