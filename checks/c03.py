"""C03 - one discrete operator: give, take, cached, uncached agree.

spec/Stencil.tla is the documented stencil in exact rational arithmetic (take form): TLC proves Dirichlet rows = identity
and the 9-point / 7-point shape for every instance; ResidualGive (all four cache-flag combinations) and ResidualTake are
probed with unit vectors on the same instances - every matrix entry must equal the table - and on arbitrary u, f.
Coarse-level caches and the shipped geometries are covered by an implementation-vs-implementation run (drv_realgeom).
"""
import os
import vlib
import stencil_common as sc

LEVEL = "model_checking"


def run(rep, tier):
    vlib.sany("StencilMC")
    rep.assumptions += [
        "coefficient fields arr, art, |det DF| are integer patterns realised by a synthetic mapping (alpha = 1, att = (1+art^2)/(4 arr)); beta per radius",
        "entries compared with 1e-12 relative to the largest entry of the row",
        "the give form is not transcribed: it is bound to the take-form table by probing",
    ]
    tabs = sc.tables(rep, tier, "c03", "ace")
    sc.conformance(rep, tier, tabs, "residual", 160, "residual", threads=(1, 3, 16) if tier == "thorough" else (1, 3), scales=(1.0, 1e-9, 1e7))
    cache_derivation(rep, tier)
    try:
        import realgeom
        realgeom.run(rep, tier, "residual")
    except ImportError:
        rep.cov["real_geometries"] = "not built yet"
    rep.cov["exhaustive"] = False
    rep.cov["rule"] = ("TLC enumerates every instance of the families (grid size, spacings, split, boundary mode, R0, coefficient pattern); a seeded "
                       "sample is probed on the real operators; non-trivial = non-zero mixed coefficient art")


def cache_derivation(rep, tier):
    """the caches of a coarse level are derived from the finer level by index arithmetic (LevelCache(previous_level, grid)):
    spec/PolarGridSpec.tla CacheDerivation for every grid of the coarsening chains incl. every explicit split; the real derived
    cache is compared bit for bit with a cache evaluated on the coarse grid itself, for every (fine split, coarse split) pair"""
    import json
    import c17
    thorough = tier == "thorough"
    exe = os.path.join(vlib.build(["drv_grid"], "gcc"), "drv_grid")
    nrs, nts = ("{3,5,7,9,11,13,17}", "{4,8,12,16,24,32}") if thorough else ("{3,5,7,9,13}", "{4,8,12,16}")
    r = vlib.tlc("PolarGridSpec", c17.cfg("grid_c03_%s" % tier, nrs, nts, True, True, "{1,3}"), heap="12g", tag="c03grid", timeout=3000, workers=8)
    rep.add_tlc(r, "PolarGridSpec.tla (CacheDerivation and the grid invariants) nr in %s nt in %s, every split" % (nrs, nts))
    if not vlib.tlc_must_hold(r, "PolarGridSpec"):
        rep.violation("model:" + r.violation, "PolarGridSpec.tla: %s violated\n%s" % (r.violation, vlib.counterexample(r)[:2000]), replay={"tlc": vlib.counterexample(r)[:6000]})
        return
    path = os.path.join(vlib.BUILD, "cases", "c03_grids_%s.ndjson" % tier)
    os.makedirs(os.path.dirname(path), exist_ok=True)
    with open(path, "w") as f:
        for c in r.cases:
            f.write(json.dumps(c, separators=(",", ":")) + "\n")
    rc, recs, out = vlib.run_driver(exe, [path, "cache"], timeout=2400)
    summ = [x for x in recs if x.get("summary")]
    if rc != 0 or not summ:
        rep.violation("cache:crash", "grid/cache driver crashed (rc=%s): %s" % (rc, out[-600:]), replay={"tables": path})
        return
    rep.cov["derived_caches_compared"] = summ[0].get("caches", 0)
    for x in recs:
        if x.get("fail") and x["what"].startswith("cache:"):
            name = x["what"].split("coarse cache ")[1].split(" ")[0] if "coarse cache " in x["what"] else "?"
            rep.violation("cache:derived:%s" % name, "%s on fine grid nr=%d nt=%d nc=%d auto=%s" % (x["what"], x["nr"], x["nt"], x["nc"], x["auto"]), replay=x)


def replay(path):
    import json
    print(json.load(open(path))["replay"])
    return 1
