"""Recording of OpenMP region tables from the real code (drv_omp) and their analysis with TLC (OmpRegions.tla)."""
import json
import math
import os

import vlib


def grid_files(tag, nr, nt, seed):
    """non-uniform grid with nr radii and nt angular cells (antipodal partners kept); returns (radii file, angles file)"""
    import random
    rng = random.Random(seed)
    d = os.path.join(vlib.BUILD, "grids")
    os.makedirs(d, exist_ok=True)
    # every second node is a midpoint of its neighbours so that the pair of finest levels is a midpoint refinement
    coarse = [0.05]
    for _ in range((nr - 1) // 2):
        coarse.append(coarse[-1] + rng.choice([0.08, 0.12, 0.2]))
    rad = []
    for i, c in enumerate(coarse):
        rad.append(c)
        if i + 1 < len(coarse):
            rad.append(0.5 * (c + coarse[i + 1]))
    scale = 1.3 / rad[-1]
    rad = [r * scale for r in rad]
    half = []
    for _ in range(nt // 4):
        half.append(rng.choice([1.0, 1.5]))
    cells = []
    for h in half:
        cells += [h, h]
    cells = cells + cells
    tot = sum(cells)
    ang, acc = [0.0], 0.0
    for c in cells:
        acc += c
        ang.append(2 * math.pi * acc / tot)
    ang[-1] = 2 * math.pi
    fr, fa = os.path.join(d, "%s_r.txt" % tag), os.path.join(d, "%s_t.txt" % tag)
    open(fr, "w").write("".join("%.18f\n" % r for r in rad))
    open(fa, "w").write("".join("%.18f\n" % a for a in ang))
    return fr, fa


def case_args(shape, method, ext, fmg, dirbc, threads, geometry=2, levels=-1, cycle=0, caches=(1, 1)):
    tag, nr, nt, seed = shape
    fr, fa = grid_files(tag, nr, nt, seed)
    a = ["--load_grid_file", 1, "--file_grid_radii", fr, "--file_grid_angles", fa,
         "--geometry", geometry, "--problem", 1, "--alpha_coeff", 1, "--beta_coeff", 1, "--kappa_eps", 0.3,
         "--delta_e", 1.4 if geometry == 2 else 0.2, "--alpha_jump", 0.66, "--R0", 0.05, "--Rmax", 1.3,
         "--extrapolation", ext, "--FMG", fmg, "--FMG_iterations", 1, "--FMG_cycle", cycle, "--multigridCycle", cycle,
         "--maxLevels", levels, "--maxIterations", 2, "--maxOpenMPThreads", threads,
         "--stencilDistributionMethod", method, "--DirBC_Interior", dirbc, "--verbose", 0,
         "--cacheDensityProfileCoefficients", caches[0], "--cacheDomainGeometry", caches[1]]     # method 1 = give (the only one that runs uncached)
    return [str(x) for x in a]


def record(case, label, threads):
    exe = os.path.join(vlib.build(["drv_omp"], "gcc"), "drv_omp")
    cdir = os.path.join(vlib.BUILD, "cases")
    os.makedirs(cdir, exist_ok=True)
    cj, rec = os.path.join(cdir, "omp_%s.json" % label), os.path.join(cdir, "omp_%s.rec" % label)
    json.dump({"args": case}, open(cj, "w"))
    rc, recs, out = vlib.run_driver(exe, [cj, rec], timeout=900, env={"OMP_NUM_THREADS": str(threads), "OMP_DYNAMIC": "false"})
    if rc != 0:
        return None, "recorder run failed (rc=%s): %s" % (rc, out[-500:]), None
    return rec, None, [r for r in recs if r.get("summary")][0]


def regions_of(rec_path):
    """group iteration records by region instance; prune cells nobody writes; relabel cells; dedupe identical regions"""
    regs = {}
    for line in open(rec_path):
        r = json.loads(line)
        if "mark" in r or "f" not in r:
            continue      # marks and the header of a single-operator recording
        regs.setdefault(r["reg"], []).append(r)
    out, seen = [], set()
    for rid in sorted(regs):
        its = regs[rid]
        written = set()
        for it in its:
            written.update(it["w"])
        if not written:
            continue
        cells = sorted(written)
        lab = {c: i + 1 for i, c in enumerate(cells)}
        loops = {}
        tab = []
        for it in sorted(its, key=lambda x: (x["ep"], x["f"], x["l"], x["i"])):
            lp = loops.setdefault((it["f"], it["l"]), len(loops) + 1)
            tab.append({"ep": it["ep"], "lp": lp, "it": it["i"], "r": [lab[c] for c in it["r"] if c in lab], "w": [lab[c] for c in it["w"]]})
        key = vlib.stable_hash([[(t["ep"], t["lp"], t["it"], t["r"], t["w"]) for t in tab], sorted(loops)])
        if key in seen:
            continue
        seen.add(key)
        out.append({"id": rid, "team": its[0]["team"], "loops": {v: "%s:%d" % (os.path.relpath(k[0], vlib.REPO), k[1]) for k, v in loops.items()}, "its": tab})
    return out, len(regs)


def find_conflict(reg, writes_only=False):
    its = reg["its"]
    for i in range(len(its)):
        wi, ri = set(its[i]["w"]), set(its[i]["r"])
        for j in range(i + 1, len(its)):
            if its[i]["ep"] != its[j]["ep"]:
                continue
            wj, rj = set(its[j]["w"]), set(its[j]["r"])
            c = (wi & wj) if writes_only else ((wi & (rj | wj)) | (wj & ri))
            if c:
                return its[i], its[j], sorted(c)
    return None


def check_regions(rep, regions, label, invariant="RaceFree"):
    """TLC decides race freedom of every observed table; returns list of (region, pair) violations"""
    if not regions:
        return []
    path = os.path.join(vlib.BUILD, "cases", "regions_%s.ndjson" % label)
    with open(path, "w") as f:
        for r in regions:
            f.write(json.dumps({"id": r["id"], "its": r["its"]}, separators=(",", ":")) + "\n")
    cfg = os.path.join(vlib.BUILD, "cfg", "ompregions_%s.cfg" % invariant)
    open(cfg, "w").write("SPECIFICATION Spec\nINVARIANT %s\n" % invariant)
    bad = []
    start = 0
    # TLC stops at the first violated table; continue behind it so that every table is judged
    regs = list(regions)
    while regs:
        with open(path, "w") as f:
            for r in regs:
                f.write(json.dumps({"id": r["id"], "its": r["its"]}, separators=(",", ":")) + "\n")
        t = vlib.tlc("OmpRegions", cfg, workers=1, env={"REGIONS": path}, tag="ompreg" + label, timeout=1700, heap="8g")
        rep.add_tlc(t, "OmpRegions %s on %d observed tables (%s)" % (invariant, len(regs), label))
        if t.rc == 0:
            break
        if t.rc != 12:
            raise vlib.HarnessError("OmpRegions failed (rc=%s):\n%s" % (t.rc, t.out[-2000:]))
        k = t.depth if t.depth else 1
        # the violated state is the last one of the trace: k = number of states in the counterexample
        import re
        ks = re.findall(r"^k = (\d+)|/\\ k = (\d+)", t.out, re.M)
        kk = max(int(a or b) for a, b in ks) if ks else 1
        reg = regs[kk - 1]
        bad.append((reg, find_conflict(reg, writes_only=(invariant == "Deterministic"))))
        regs = regs[kk:]
    return bad


# ---------------------------------------------------------------------------------------------------------------------
# Observed tables of single operators vs the INTENDED tables of spec/ZebraSchedule.tla

def intended_tables(rep, shapes):
    """TLC checks EpochDisjoint for exactly the given shapes (nr, nt, nc, dir) and prints the intended tables"""
    cfg = os.path.join(vlib.BUILD, "cfg", "zebra_emit.cfg")
    os.makedirs(os.path.dirname(cfg), exist_ok=True)
    sfile = os.path.join(vlib.BUILD, "cases", "zebra_shapes.ndjson")
    os.makedirs(os.path.dirname(sfile), exist_ok=True)
    with open(sfile, "w") as f:
        for (nr, nt, nc, d) in shapes:
            f.write(json.dumps({"nr": nr, "nt": nt, "nc": nc, "dir": d}) + "\n")
    open(cfg, "w").write('SPECIFICATION Spec\nCONSTANTS\n  NrSet = {}\n  NtSet = {}\n  Ops = {%s}\n  EmitTables = TRUE\n  FIXED = {"F19", "F21"}\n'
                         'INVARIANTS EpochDisjoint AllRadialOnce AllCirclesOnce GiveSolvesOnce Emit\n' % ", ".join('"%s"' % o for o in ZEBRA_OPS))
    r = vlib.tlc("ZebraSchedule", cfg, heap="8g", tag="zebraemit", timeout=1500, env={"ZSHAPES": sfile}, workers=8)
    rep.add_tlc(r, "ZebraSchedule.tla intended tables for %d shapes x %d operators" % (len(shapes), len(ZEBRA_OPS)))
    if r.rc != 0:
        if r.rc == 12:
            return None, "ZebraSchedule.tla: %s violated\n%s" % (r.violation, vlib.counterexample(r)[:1500])
        raise vlib.HarnessError("ZebraSchedule failed:\n" + r.out[-2000:])
    tabs = {}
    for c in r.cases:
        s = c["shape"]
        tabs[(s["op"], s["nr"], s["nt"], s["nc"], bool(s["dir"]))] = c
    return tabs, None


ZEBRA_OPS = ("residualGive", "smootherTake", "xsmootherTake", "residualTake", "smootherGive", "xsmootherGive", "directGiveAsm", "smootherGiveAsm", "xsmootherGiveAsm")
# the give assemblies run under the mark "assembly": the LAST parallel region of each file is the 3-colour sweep (the regions before it allocate / zero the matrices)
ASM_FILES = {"directGiveAsm": "DirectSolverGiveCustomLU/buildSolverMatrix.cpp", "smootherGiveAsm": "/SmootherGive/buildMatrix.cpp", "xsmootherGiveAsm": "ExtrapolatedSmootherGive/buildAscMatrices.cpp"}


def record_ops(nr, nt, nc, dirbc, threads):
    """run the five operators alone on a harness-owned level of the given shape; returns the recording"""
    exe = os.path.join(vlib.build(["drv_omp"], "gcc"), "drv_omp")
    rec = os.path.join(vlib.BUILD, "cases", "ops_%d_%d_%d_%d.rec" % (nr, nt, nc, dirbc))
    rc, recs, out = vlib.run_driver(exe, ["ops", nr, nt, nc, dirbc, threads, rec], timeout=600, env={"OMP_NUM_THREADS": str(threads), "OMP_DYNAMIC": "false"})
    if rc != 0:
        return None, "ops recorder failed (rc=%s): %s" % (rc, out[-400:])
    return rec, None


def observe_ops(nr, nt, nc, dirbc, threads, rec=None):
    if rec is None:
        rec, err = record_ops(nr, nt, nc, dirbc, threads)
        if err:
            return None, err
    lines = [json.loads(l) for l in open(rec)]
    hdr = lines[0]
    N = hdr["n"]
    arrays = hdr["arrays"]
    node_of = hdr["node_of_index"]

    def loc(cell):
        for name, base in arrays.items():
            if base <= cell < base + 2 * N:
                return (name, node_of[(cell - base) // 2])
        return None
    ops, cur = {}, None
    for l in lines[1:]:
        if "mark" in l:
            cur = l["mark"]
            continue
        ops.setdefault(cur, []).append(l)
    out = {}
    for aop, f in ASM_FILES.items():
        mine = [it for it in ops.get("assembly", []) if f in it.get("f", "")]
        if mine:
            last = max(it.get("reg", 0) for it in mine)
            ops[aop] = [it for it in mine if it.get("reg", 0) == last]
    for op, its in ops.items():
        loops = {}
        own = {"residualGive": "ResidualGive/residualGive.cpp", "smootherTake": "SmootherTake/smootherSolver.cpp",
               "xsmootherTake": "ExtrapolatedSmootherTake/smootherSolver.cpp", "residualTake": "ResidualTake/residualTake.cpp", "smootherGive": "/SmootherGive/smootherSolver.cpp", "xsmootherGive": "ExtrapolatedSmootherGive/smootherSolver.cpp", **ASM_FILES}.get(op, "@")
        for it in its:
            if own not in it["f"]:
                continue      # helper regions (vector copies) are separate parallel regions
            key = (it["f"], it["l"])
            d = loops.setdefault(key, {"ep": it["ep"], "reg": it.get("reg", 0), "tasks": {}})
            w = {loc(c) for c in it["w"]} - {None}
            r = {loc(c) for c in it["r"]} - {None}
            d["tasks"][it["i"]] = (w, r)
        out[op] = [loops[k] for k in sorted(loops, key=lambda k: (k[0], k[1]))]
        # an operator made of several parallel regions: the join of a region is a barrier, epochs are numbered through
        off, prev, top = 0, None, -1
        for d in out[op]:
            if prev is not None and d["reg"] != prev:
                off = top + 1
            prev = d["reg"]
            d["ep"] += off
            top = max(top, d["ep"])
    return out, None


def contained(observed, intended):
    """Observed [= Intended: same loops in the same order with the same iteration ids and epochs; observed footprints contained"""
    il = [l for l in intended["loops"]]
    # loops without iterations are invisible in the observation
    il_nonempty = [l for l in il if l["tasks"]]
    if len(observed) != len(il_nonempty):
        return "observed %d work-sharing loops with iterations, the schedule has %d" % (len(observed), len(il_nonempty))
    base_ep = None
    for k, (ol, l) in enumerate(zip(observed, il_nonempty)):
        ids_o, ids_i = sorted(ol["tasks"]), sorted(t["id"] for t in l["tasks"])
        if ids_o != ids_i:
            return "loop %d: iterations %s, schedule %s" % (k + 1, ids_o, ids_i)
        if base_ep is None:
            base_ep = ol["ep"] - l["epoch"]
        if ol["ep"] - l["epoch"] != base_ep:
            return "loop %d runs in barrier epoch %d, schedule says %d (a barrier is missing or added)" % (k + 1, ol["ep"] - base_ep, l["epoch"])
        written_arrays = {a for t in l["tasks"] for (a, n) in map(tuple, t["w"])}
        for t in l["tasks"]:
            w, r = ol["tasks"][t["id"]]
            iw = {tuple(x) for x in t["w"]}
            ir = {tuple(x) for x in t["r"]} | iw
            if not w <= iw:
                return "loop %d iteration %d writes %s outside its intended footprint" % (k + 1, t["id"], sorted(w - iw)[:4])
            rr = {x for x in r if x[0] in written_arrays_all(il)}
            if not rr <= ir:
                return "loop %d iteration %d reads %s outside its intended footprint" % (k + 1, t["id"], sorted(rr - ir)[:4])
    return None


def written_arrays_all(loops):
    return {a for l in loops for t in l["tasks"] for (a, n) in map(tuple, t["w"])}


