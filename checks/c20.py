"""C20 - every option combination is either rejected cleanly or runs without UB.

1. Solver.tla (TLC, exhaustive): StatsDefined and RejectOrRun over all life-cycle histories, including disabled
   tolerances, maxIterations = 0, out-of-date hierarchies (SolveReject/SolveAbort).
2. OptionSpace.tla (TLC simulation): walks through the concrete option space reachable by setters and command line;
   Outcome(cfg) transcribes the documented rejection rules.  Every generated configuration is run through the API
   (assertions and libstdc++ bounds checks on; ASan/UBSan in the thorough tier) and through the gmgpolar binary,
   and the observed outcome must equal Outcome(cfg); inside C01's set the solution must be finite.
3. Life-cycle traces of out-of-domain histories are validated against TraceSolver.tla (allocation discipline of the
   work vectors, statistics defined, clean rejection).
"""
import json
import os
import random
import subprocess

import vlib
import solver_common as sc
from c13 import report_trace_result

LEVEL = "model_checking"


def cli_args(c):
    g = c["geometry"]
    a = ["--geometry", g, "--problem", c["problem"], "--alpha_coeff", c.get("alpha", 1), "--beta_coeff", c.get("beta", g % 2),
         "--kappa_eps", "0.0" if g == 0 else "0.3", "--delta_e", "1.4" if g == 2 else ("0.2" if g == 1 else "0.0"),
         "--alpha_jump", "0.66", "--R0", "1e-5", "--verbose", 0,
         "--nr_exp", c["nr_exp"], "--ntheta_exp", -1 if c["ntheta_exp"] == 0 else c["ntheta_exp"], "--anisotropic_factor", 0,
         "--divideBy2", c["divideBy2"], "--maxLevels", -1 if c["maxLevels"] == 0 else c["maxLevels"], "--DirBC_Interior", c["DirBC"],
         "--extrapolation", c["ext"], "--FMG", c["fmg"], "--FMG_iterations", c["fmgIts"], "--FMG_cycle", c["fmgCycle"],
         "--multigridCycle", c["cycle"], "--preSmoothingSteps", c["pre"], "--postSmoothingSteps", c["post"],
         "--maxIterations", c["maxIter"], "--residualNormType", c["norm"],
         "--absoluteTolerance", "1e-8" if c["absOn"] else "-1", "--relativeTolerance", "1e-8" if c["relOn"] else "-1",
         "--stencilDistributionMethod", c["method"], "--cacheDensityProfileCoefficients", c["cacheDP"],
         "--cacheDomainGeometry", c["cacheDG"], "--maxOpenMPThreads", c["threads"]]
    return [str(x) for x in a]


def run_api(rep, exe, cases, label):
    path = os.path.join(vlib.BUILD, "cases", "c20_%s.ndjson" % label)
    os.makedirs(os.path.dirname(path), exist_ok=True)
    with open(path, "w") as f:
        for c in cases:
            f.write(json.dumps(c, separators=(",", ":")) + "\n")
    results, start = {}, 0
    for _ in range(60):
        rc, recs, out = vlib.run_driver(exe, [path, start], timeout=2400, env={"OMP_NUM_THREADS": "4", "UBSAN_OPTIONS": "print_stacktrace=1"})
        for r in recs:
            if "case" in r:
                results[r["case"]] = r
        if rc == 0 and any(r.get("summary") for r in recs):
            break
        cur = int(open(path + ".progress").read().strip() or "0")
        if cur <= start:
            raise vlib.HarnessError("option driver failed without progress: " + out[-1000:])
        msg = [l for l in out.splitlines() if "Assertion" in l or "ERROR" in l or "runtime error" in l or "terminate" in l][:2]
        results[cur] = {"case": cur, "api": "Crash", "what": " | ".join(msg) or out[-300:], "where": "?"}
        start = cur
    return results


def run(rep, tier):
    thorough = tier == "thorough"
    variant = "asan" if thorough else "gcc"
    bdir = vlib.build(["drv_options", "gmgpolar", "drv_solver"], variant)
    vlib.sany("OptionSpace")
    rep.assumptions += [
        "Outcome(cfg) transcribes the documented rules: take needs both caches, >= 2 levels, enum ranges; everything else runs",
        "memory safety is sampled: assertions + _GLIBCXX_ASSERTIONS in the quick tier, ASan/UBSan in the thorough tier",
        "command-line runs: a rejection must end with a non-zero exit status and a message, not with a signal",
    ]
    # 1. life-cycle model
    cfg = sc.gen_cfg("solver_mc_c20", 5, maxiter="{0, 2}", ext="{0, 3}", misc="{0}",
                     settable='{"ext", "fmg", "L", "take", "caches", "maxIter", "absOn", "relOn", "exact"}', gen=False)
    r = vlib.tlc("Solver", cfg, heap="24g", tag="c20mc", timeout=3000)
    rep.add_tlc(r, "Solver.tla all histories <= 5 calls (StatsDefined, RejectOrRun)")
    if not vlib.tlc_must_hold(r, "Solver.tla"):
        rep.violation("model:" + r.violation, vlib.counterexample(r)[:2500], replay={"tlc": vlib.counterexample(r)[:8000]})
    # 2. option space
    cases = []
    seen = set()
    for depth, num in ((2, 150 if thorough else 40), (5, 400 if thorough else 60), (9, 400 if thorough else 40)):
        c = os.path.join(vlib.BUILD, "cfg", "optionspace_%d.cfg" % depth)
        open(c, "w").write("SPECIFICATION Spec\nCONSTANTS\n  Depth = %d\n  Mode = \"all\"\nINVARIANTS RuleSound Emit\n" % depth)
        g = vlib.tlc("OptionSpace", c, simulate=num, depth=depth + 1, workers=2, tag="c20opt%d" % depth)
        if g.rc != 0:
            if g.rc == 12:
                rep.violation("model:RuleSound", vlib.counterexample(g)[:2000], replay={"tlc": vlib.counterexample(g)[:5000]})
                continue
            raise vlib.HarnessError("OptionSpace generation failed:\n" + g.out[-2000:])
        rep.add_tlc(g, "OptionSpace walk depth %d" % depth)
        for cs in g.cases:
            k = json.dumps(cs["cfg"], sort_keys=True)
            if k not in seen:
                seen.add(k)
                cases.append(cs)
    res = run_api(rep, os.path.join(bdir, "drv_options"), cases, tier)
    nrej = 0
    for i, cs in enumerate(cases, 1):
        r = res.get(i)
        exp = cs["outcome"]
        rep.case(key=json.dumps(cs["cfg"], sort_keys=True), nontrivial=True)
        nrej += exp == "Rejected"
        if r is None:
            continue
        cfgs = json.dumps(cs["cfg"], sort_keys=True)
        if r["api"] == "Crash":
            rep.violation("api:crash:%s" % ("+".join(sorted(cs["reasons"])) or "runs"),
                          "configuration crashes instead of being %s: %s cfg=%s" % (exp.lower(), r["what"], cfgs), replay=cs)
        elif r["api"] != exp:
            rep.violation("api:%s-but-%s:%s" % (exp, r["api"], "+".join(sorted(cs["reasons"])) or r.get("where")),
                          "model says %s (%s), API %s at %s: %s cfg=%s" % (exp, cs["reasons"], r["api"], r.get("where"), r.get("what"), cfgs), replay=cs)
        elif exp == "Runs":
            if not r["statsDefined"]:
                rep.violation("api:stats-undefined", "statistics not well defined: %s cfg=%s" % (r, cfgs), replay=cs)
            if cs["c01"] and not r["finite"]:
                rep.violation("api:nonfinite", "non-finite solution inside C01's set cfg=%s" % cfgs, replay=cs)
            if r["levels"] != cs["levels"]:
                rep.violation("api:levels", "setup built %s levels, rule says %s cfg=%s" % (r["levels"], cs["levels"], cfgs), replay=cs)
    rep.cov["configurations_expected_rejected"] = nrej
    rep.sample(cases[0])
    rep.sample(cases[len(cases) // 2])
    # 2b. command line
    rng = random.Random(vlib.seed())
    cli = [cs for cs in cases if cs["cfg"]["exact"] == 1]
    rng.shuffle(cli)
    cli = cli[:(150 if thorough else 30)]
    exe = os.path.join(bdir, "repo", "gmgpolar")
    for cs in cli:
        p = subprocess.run([exe] + cli_args(cs["cfg"]), stdout=subprocess.PIPE, stderr=subprocess.PIPE, text=True, timeout=600,
                           env=dict(os.environ, OMP_NUM_THREADS="4"))
        exp = cs["outcome"]
        c = cs["cfg"]
        # the parser itself restricts every enumeration option (cmdline::oneof), whether or not the run would reach its use
        if c["ext"] > 3 or c["cycle"] > 2 or c["fmgCycle"] > 2 or c["norm"] > 2 or c["method"] > 1:
            exp = "Rejected"
        cfgs = json.dumps(cs["cfg"], sort_keys=True)
        if exp == "Rejected":
            if p.returncode == 0:
                rep.violation("cli:accepted:%s" % "+".join(sorted(cs["reasons"])), "command line accepts a combination that must be rejected cfg=%s" % cfgs, replay=cs)
            elif p.returncode < 0 or p.returncode >= 128:
                rep.violation("cli:signal:%s" % "+".join(sorted(cs["reasons"])),
                              "rejected combination ends with signal/abort (status %s) instead of a message and exit status: %s cfg=%s" % (p.returncode, p.stderr[-200:], cfgs), replay=cs)
            elif not (p.stderr.strip() or "sage" in p.stdout):
                rep.violation("cli:silent", "rejected without any message cfg=%s" % cfgs, replay=cs)
        else:
            if p.returncode != 0:
                rep.violation("cli:failed-run", "combination that must run exits with status %s: %s cfg=%s" % (p.returncode, p.stderr[-300:], cfgs), replay=cs)
        rep.case(key="cli:" + cfgs, nontrivial=True)
    rep.cov["cli_runs"] = len(cli)
    # 3. out-of-domain life-cycle histories (trace validation: allocation discipline, defined statistics, clean rejection)
    hs = sc.generate_histories(rep, 100 if thorough else 25, 6, 300, "c20" + tier)
    rng.shuffle(hs)
    ood = [h for h in hs if True][:(60 if thorough else 10)]
    curated = [{"ctor": c, "steps": s, "label": n} for n, c, s in [
        ("solve before setup", sc.CTOR0, [sc.SOLVE, sc.SETUP, sc.SOLVE]),
        ("extrapolation enabled after setup", sc.CTOR0, [sc.SETUP, sc.S("ext", 3), sc.SOLVE, sc.SETUP, sc.SOLVE]),
        ("fmg enabled after setup", sc.CTOR0, [sc.SETUP, sc.S("fmg", True), sc.SOLVE, sc.S("ext", 2), sc.SOLVE]),
        ("fmg enabled after a setup with extrapolation, three levels", dict(sc.CTOR0, ext=1), [sc.SETUP, sc.SOLVE, sc.S("fmg", True), sc.SOLVE, sc.SETUP, sc.SOLVE]),
        ("fmg enabled after a setup with extrapolation, two levels (legitimate)", dict(sc.CTOR0, ext=3, L=2), [sc.SETUP, sc.S("fmg", True), sc.SOLVE, sc.SOLVE]),
        ("fmg disabled / extrapolation mode changed after setup", dict(sc.CTOR0, ext=3, fmg=True), [sc.SETUP, sc.S("fmg", False), sc.SOLVE, sc.S("ext", 2), sc.SOLVE, sc.S("ext", 1), sc.SOLVE]),
        ("extrapolation disabled after setup", dict(sc.CTOR0, ext=1), [sc.SETUP, sc.S("ext", 0), sc.SOLVE, sc.S("ext", 3), sc.SOLVE]),
        ("both tolerances off, no exact", dict(sc.CTOR0, exact=False, absOn=False, relOn=False, maxIter=2), [sc.SETUP, sc.SOLVE, sc.S("maxIter", 0), sc.SOLVE]),
    ]]
    cs2 = sc.make_cases(curated + ood, None)
    for i in range(0, len(cs2), 8):
        resv = sc.run_and_validate(rep, cs2[i:i + 8], "%s_c20_%d" % (tier, i // 8), variant=variant)
        report_trace_result(rep, resv, None)
        if not resv.get("crashed"):
            rep.add_tlc(resv["tlc"], "trace batch %d" % (i // 8))
    rep.cov["rule"] = ("configurations = states of TLC random walks through OptionSpace.tla (depth 2/5/9 from the defaults), each run through the "
                       "API and a sample through the binary; distinct by full option record")


def replay(path):
    d = json.load(open(path))["replay"]
    print(json.dumps(d)[:2000])
    return 1
