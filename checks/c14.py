"""C14 - tridiagonal line solvers solve every SPD system, every time.

spec/TridiagAlg.tla transcribes the in-place LDL^T / Sherman-Morrison code over exact fractions as a state
machine over successive solves on one object.  TLC proves A x = b exactly for every instance of the bounded
family and every sequence of solves, and prints the factor arrays and solutions; the real solver is then run on
the same instances and compared with the tables (X).  Numeric reach beyond the model (n up to 1e4, rows scaled
over ten orders of magnitude, nearly singular SPD) is explored with a componentwise backward-error bound.
"""
import json
import os

import vlib

LEVEL = "model_checking"


def cfg(name, dims, fam, solves, emit):
    path = os.path.join(vlib.BUILD, "cfg", name + ".cfg")
    os.makedirs(os.path.dirname(path), exist_ok=True)
    with open(path, "w") as f:
        f.write("SPECIFICATION Spec\nCONSTANTS\n  Dims = {%s}\n  DiagVals <- %sDiag\n  SubVals <- %sSub\n"
                "  CornerVals <- %sCorner\n  MaxSolves = %d\n  EmitTables = %s\nINVARIANTS AlgSolves SecondSolveSame%s\n"
                % (",".join(map(str, dims)), fam, fam, fam, solves, "TRUE" if emit else "FALSE", " Emit" if emit else ""))
    return path


def run_tables(rep, exe, cases, label):
    path = os.path.join(vlib.BUILD, "cases", "c14_%s.ndjson" % label)
    os.makedirs(os.path.dirname(path), exist_ok=True)
    with open(path, "w") as f:
        for c in cases:
            f.write(json.dumps(c, separators=(",", ":")) + "\n")
    rc, recs, out = vlib.run_driver(exe, ["tables", path], timeout=1200)
    summ = [r for r in recs if r.get("summary")]
    if rc != 0 or not summ:
        # a crash / failed assertion inside the real solver on an instance the model solves
        rep.violation("tables:crash", "solver crashed or asserted on a model instance (rc=%s): %s" % (rc, out[-600:]),
                      replay={"cases_file": path})
        return
    dr = [r for r in recs if r.get("drift")]
    if dr:
        rep.cov["factor_layout_drift"] = [r["what"] for r in dr][:3]
        print("NOTE C14: the factor arrays of the real solver are not those of TridiagAlg.tla any more (solutions are judged on their own): " + dr[0]["what"])
    for r in recs:
        if r.get("fail"):
            key = "tables:%s:n%d:%s" % ("cyclic" if r["cyc"] else "plain", min(r["n"], 4),
                                        "repeat" if "repeated" in r["what"] else "value")
            rep.violation(key, r["what"] + " -- instance " + json.dumps({k: r["table"][k] for k in ("n", "cyc", "diag", "sub", "corner", "seq")}),
                          replay=r["table"])
    rep.cov["spd_instances_compared"] = rep.cov.get("spd_instances_compared", 0) + summ[0]["spd"]
    rep.cov["model_pivot_vanishes"] = rep.cov.get("model_pivot_vanishes", 0) + summ[0]["model_bad"]


def run(rep, tier):
    thorough = tier == "thorough"
    exe = os.path.join(vlib.build(["hdr_tridiag"], "asan"), "hdr_tridiag")
    vlib.sany("TridiagAlgMC")
    rep.assumptions += [
        "exact arithmetic in the model; the real solver is compared on the SPD instances with tolerance 1e-11 relative",
        "instances on which the model reports a vanishing pivot are outside the property's domain",
        "ideal = A x = b verified exactly row by row (equivalent to Cramer's rule for a non-singular A)",
    ]
    runs = [("S", [2, 3, 4], 2, True)]
    if thorough:
        runs += [("Q", [2, 3, 4], 2, True), ("S", [5], 3, True)]
    for fam, dims, solves, emit in runs:
        r = vlib.tlc("TridiagAlgMC", cfg("c14_%s_%s" % (fam, "".join(map(str, dims))), dims, fam, solves, emit),
                     tag="c14" + fam, timeout=3000)
        rep.add_tlc(r, "family %s dims %s solves<=%d" % (fam, dims, solves))
        if not vlib.tlc_must_hold(r, "TridiagAlg"):
            rep.violation("model:" + r.violation, "TridiagAlg.tla: %s violated\n%s" % (r.violation, vlib.counterexample(r)[:3000]),
                          replay={"tlc": vlib.counterexample(r)[:6000]})
            continue
        inst = set()
        for c in r.cases:
            k = (c["n"], c["cyc"], tuple(c["diag"]), tuple(c["sub"]), c["corner"])
            inst.add(k)
            rep.case(key=k + (tuple(c["seq"]),), nontrivial=not c["bad"])
        rep.cov["instances"] = rep.cov.get("instances", 0) + len(inst)
        if r.cases:
            rep.sample({k: r.cases[len(r.cases) // 3][k] for k in ("n", "cyc", "diag", "sub", "corner", "seq", "x", "fd")})
            run_tables(rep, exe, r.cases, fam + "".join(map(str, dims)))
            rep.traces(len(r.cases))
    if thorough:
        # longer dimensions by simulation (fractions may overflow 32 bit: that run is then discarded, not a verdict)
        r = vlib.tlc("TridiagAlgMC", cfg("c14_sim", [6, 7], "S", 2, False), simulate=300, depth=3, tag="c14sim", timeout=900)
        if r.rc == 0:
            rep.add_tlc(r, "simulate dims 6,7")
        else:
            rep.cov["simulate_note"] = "dims 6,7 simulation discarded (rc=%s: overflow or timeout)" % r.rc
    # numeric exploration
    count = 4000 if thorough else 400
    rc, recs, out = vlib.run_driver(exe, ["numeric", vlib.seed(), count], timeout=2400)
    summ = [x for x in recs if x.get("summary")]
    if rc != 0 or not summ:
        rep.violation("numeric:crash", "numeric driver crashed (rc=%s): %s" % (rc, out[-600:]), replay={"seed": vlib.seed()})
    else:
        rep.cov["numeric_cases"] = summ[0]["cases"]
        rep.cov["numeric_worst_componentwise_backward_error"] = summ[0]["worst_backward_error"]
        for x in recs:
            if x.get("fail"):
                rep.violation("numeric:%s" % ("repeat" if "differs" in x["what"] else "backward-error"),
                              x["what"] + " (n=%s cyc=%s kind=%s case=%s seed=%s)" % (x.get("n"), x.get("cyc"), x.get("kind"), x.get("case"), vlib.seed()),
                              replay={"seed": vlib.seed(), "case": x.get("case")})
    rep.cov["exhaustive"] = True
    rep.cov["rule"] = ("every (dimension, cyclic flag, integer entries) of the family x every sequence of <=2 (3) solves with two "
                       "right-hand sides; non-trivial = no vanishing pivot; distinct by instance and rhs sequence")


def replay(path):
    d = json.load(open(path))
    exe = os.path.join(vlib.build(["hdr_tridiag"], "asan"), "hdr_tridiag")
    p = os.path.join(vlib.BUILD, "cases", "c14_replay.ndjson")
    os.makedirs(os.path.dirname(p), exist_ok=True)
    open(p, "w").write(json.dumps(d["replay"]) + "\n")
    rc, recs, out = vlib.run_driver(exe, ["tables", p])
    print(out)
    return 1 if rc != 0 or any(r.get("fail") for r in recs) else 0
