"""C15 - copies and moves of linear-algebra objects behave like the original.

1. TLC checks spec/LinAlgObjects.tla (code-shaped special members vs ideal value semantics) for all six
   classes over ALL histories on two objects (exhaustive state graph), three objects in the thorough tier.
2. TLC emits one history per EDGE of the state graph (shortest history reaching it), with the ideal
   abstract value expected after every step.
3. The histories are replayed on the real classes (ASan/UBSan build, assertions on); after every step the
   projection of every live object is compared with the model.
"""
import json
import os

import vlib

LEVEL = "model_checking"
CLASSES = ["Vector", "Diag", "COO", "CSR", "LU", "Tridiag"]
# defects of the tree the code-shaped layer follows (spec/LinAlgObjects.tla FIXED); see known_findings.json
TREE_FIXED = '{"F1","F14","F15"}'


def write_cfg(cls, mode, nobj, maxhist, fixed=TREE_FIXED):
    shapes = "{1,2,3,4}" if cls in ("COO", "CSR") else "{1,3}"
    name = "gen_LinAlgObjects_%s_%s_%d.cfg" % (cls, mode, nobj)
    path = os.path.join(vlib.BUILD, "cfg", name)
    os.makedirs(os.path.dirname(path), exist_ok=True)
    with open(path, "w") as f:
        f.write("SPECIFICATION Spec\nCONSTANTS\n  Obj = {%s}\n  Class = \"%s\"\n  Shapes = %s\n"
                "  Variants = {1,2}\n  FIXED = %s\n  GenCases = %s\n  MaxHist = %d\n"
                % (",".join(str(i + 1) for i in range(nobj)), cls, shapes, fixed,
                   "TRUE" if mode == "gen" else "FALSE", maxhist))
        f.write("VIEW %s\nCONSTRAINT Bound\n" % ("EdgeView" if mode == "gen" else "PlainView"))
        if mode == "mc":
            f.write("INVARIANTS\n  NoThrow\n  InBounds\n  Refines\n")
        else:
            f.write("INVARIANT Emit\n")
    return path


def replay_cases(rep, exe, cls, cases, label, scale=1):
    """run the driver over `cases`; restart after a crash, attributing it to the case in progress."""
    path = os.path.join(vlib.BUILD, "cases", "c15_%s_%s.ndjson" % (cls, label))
    os.makedirs(os.path.dirname(path), exist_ok=True)
    with open(path, "w") as f:
        for c in cases:
            f.write(json.dumps(c, separators=(",", ":")) + "\n")
    skip, crashes, done = 0, 0, False
    fails = []
    while not done:
        rc, recs, out = vlib.run_driver(exe, [cls, path, scale, skip], timeout=1200,
                                        env={"ASAN_OPTIONS": "detect_leaks=1:abort_on_error=0", "UBSAN_OPTIONS": "print_stacktrace=1"})
        fails += [r for r in recs if r.get("fail")]
        summ = [r for r in recs if r.get("summary")]
        if summ and rc == 0:
            done = True
            break
        # crashed (or sanitizer report): find the case in progress
        try:
            cur = int(open(path + ".progress").read().strip() or "0")
        except Exception:
            cur = 0
        if cur <= skip:
            raise vlib.HarnessError("replay driver failed without progress (rc=%s):\n%s" % (rc, out[-2000:]))
        crashes += 1
        msg = [l for l in out.splitlines() if "ERROR" in l or "runtime error" in l or "SUMMARY" in l][:3]
        hist = cases[cur - 1]
        fails.append({"fail": True, "case": cur, "step": len(hist) - 1, "act": hist[-1]["a"],
                      "what": "crash/sanitizer report in case (rc=%s): %s" % (rc, " | ".join(msg) or out[-300:]),
                      "hist": hist})
        skip = cur
        if crashes >= 40:
            break
    return fails


def classify(cls, f):
    w = f["what"]
    kind = "crash" if w.startswith("crash") else "throw" if " threw " in w else \
        "solve" if ("solution[" in w) else "projection"
    return "%s:%s:%s" % (cls, f["act"], kind)


def run(rep, tier):
    thorough = tier == "thorough"
    exe_dir = vlib.build(["hdr_linalg"], "asan")
    exe = os.path.join(exe_dir, "hdr_linalg")
    rep.assumptions += [
        "content of an object is abstracted to <<shape, variant>>; the driver maps it to fixed numeric data",
        "self-copy/self-move excluded (unspecified by convention)",
        "dense Gaussian elimination in long double is the solve oracle (tolerance 1e-10 relative)",
        "SetEntries/SetCyclic on an already factorised tridiagonal solver is outside the supported use",
    ]
    vlib.sany("LinAlgObjects")
    for cls in CLASSES:
        # 1. exhaustive model check of the code-shaped layer against the ideal
        nobj_mc = 3 if thorough else 2
        r = vlib.tlc("LinAlgObjects", write_cfg(cls, "mc", nobj_mc, 0), tag="c15mc" + cls, coverage=False)
        rep.add_tlc(r, "%s mc %d objects" % (cls, nobj_mc))
        model_ok = vlib.tlc_must_hold(r, "LinAlgObjects " + cls)
        # 2. one history per edge
        g = vlib.tlc("LinAlgObjects", write_cfg(cls, "gen", 2, 8), tag="c15gen" + cls, workers=1)
        if g.rc != 0:
            raise vlib.HarnessError("case generation failed for %s:\n%s" % (cls, g.out[-3000:]))
        rep.add_tlc(g, "%s edges 2 objects" % cls)
        cases = g.cases
        if thorough:
            g3 = vlib.tlc("LinAlgObjects", write_cfg(cls, "gen", 3, 12), tag="c15gen3" + cls,
                          simulate=3000, depth=12, workers=1)
            if g3.rc != 0:
                raise vlib.HarnessError("simulation failed for %s:\n%s" % (cls, g3.out[-3000:]))
            # simulation prints every prefix; keep maximal histories only
            seen = {}
            for h in g3.cases:
                seen[json.dumps(h[:-1], sort_keys=True)] = False
            long_cases = [h for h in g3.cases if len(h) >= 12 or h[-1]["threw"]]
            cases = cases + long_cases
            rep.add_tlc(g3, "%s simulate 3 objects depth 12" % cls)
        if not cases:
            raise vlib.HarnessError("no cases generated for " + cls)
        # 3. replay
        fails = replay_cases(rep, exe, cls, cases, tier)
        if thorough:
            fails += replay_cases(rep, exe, cls, g.cases, tier + "_scaled", scale=5)
        for c in cases:
            acts = tuple(s["a"] for s in c)
            nontriv = any(a in ("CC", "CA", "MC", "MA") for a in acts)
            rep.case(key=(cls,) + acts + tuple((s["d"], s["s"], s["x"], s["y"]) for s in c), nontrivial=nontriv)
        rep.traces(len(cases))
        rep.sample({"class": cls, "history": [[s["a"], s["d"], s["s"], s["x"], s["y"]] for s in cases[len(cases) // 2]],
                    "expected_after_last_step": cases[len(cases) // 2][-1]["abs"]})
        keys = {}
        for f in fails:
            keys.setdefault(classify(cls, f), f)
        for k, f in keys.items():
            hist = f["hist"]
            rep.violation(k, "%s -- history %s" % (f["what"], [[s["a"], s["d"], s["s"], s["x"], s["y"]] for s in hist[:f["step"] + 1]]),
                          replay={"class": cls, "history": hist, "driver": "%s %s <file with this history as one line>" % (exe, cls)})
        if not model_ok:
            # The code-shaped model (as configured for this tree) violates the ideal.  This is a verdict only
            # if the real code reproduces it - which the replay above decides (the edge set contains the
            # counterexample's last transition).  Model-only counterexamples are spec errors.
            if not fails:
                raise vlib.HarnessError("model says %s is violated for %s but the real code passes every "
                                        "replayed history: the code-shaped layer (FIXED=%s) is out of date\n%s"
                                        % (r.violation, cls, TREE_FIXED, vlib.counterexample(r)[:1500]))
    rep.cov["exhaustive"] = True
    rep.cov["rule"] = ("every edge <<pre-state, action, post-state>> of the two-object state graph of each class is one "
                       "replayed history; non-trivial = contains a copy or move; distinct by action sequence with arguments")


def replay(path):
    d = json.load(open(path))
    rp = d["replay"]
    exe = os.path.join(vlib.build(["hdr_linalg"], "asan"), "hdr_linalg")
    rep = vlib.Reporter("C15", "quick", LEVEL)
    fails = replay_cases(rep, exe, rp["class"], [rp["history"]], "replay")
    for f in fails:
        print("REPRODUCED:", f["what"])
    return 1 if fails else 0
