"""spec/Transfer.tla: exact weight tables of the transfer operators (C08, interpolation half of C09)."""
import json
import os

import vlib

BASE_INV = "P_Copies P_Const P_Convex P_LinearMid PX_Copies PX_Const PX_Convex PX_LinearMid"
FMG_INV = "FI_Copies FI_Const FI_CubicR FI_CubicT FI_RowKinds FI_LinearFallbackMid"


def cfg(name, nrc, ntc, sp, mid, emit, inv, hper=0):
    path = os.path.join(vlib.BUILD, "cfg", name + ".cfg")
    os.makedirs(os.path.dirname(path), exist_ok=True)
    open(path, "w").write("SPECIFICATION Spec\nCONSTANTS\n  NrC = %s\n  NtC = %s\n  Sp = %s\n  Midpoint = %s\n  HPer = %d\n  EmitTables = %s\nINVARIANTS %s%s\n"
                          % (nrc, ntc, sp, "TRUE" if mid else "FALSE", hper, "TRUE" if emit else "FALSE", inv, " Emit" if emit else ""))
    return path


def families(tier):
    # (NrC, NtC, Sp, HPer); the pairs with >= 4 coarse radii AND >= 4 coarse angles are the only ones on which the interior 16-point
    # rule of the FMG interpolation uses four distinct nodes in both directions
    if tier == "thorough":
        return [("{3,4,5}", "{2}", "{1,2}", 0), ("{3,4}", "{4}", "{1,2}", 0), ("{3}", "{2,4}", "{1,2,3}", 0), ("{5}", "{4,6}", "{1,2}", 2)]
    # 6 coarse angles: the smallest antipodally paired circle on which the coarse cells left and right of a node can differ
    return [("{3,4}", "{2}", "{1,2}", 0), ("{3}", "{4}", "{1,2}", 0), ("{4}", "{4}", "{1,2}", 3), ("{4}", "{6}", "{1,2}", 2)]


def model_and_tables(rep, tier, inv, label):
    """model-check the invariants on every pair of the families; returns the emitted tables"""
    tables = []
    for i, (nrc, ntc, sp, hper) in enumerate(families(tier)):
        r = vlib.tlc("Transfer", cfg("transfer_%s_%s_%d" % (label, tier, i), nrc, ntc, sp, False, True, inv, hper), heap="12g", tag="tr%s%d" % (label, i), timeout=3000)
        rep.add_tlc(r, "Transfer.tla pairs NrC=%s NtC=%s Sp=%s%s" % (nrc, ntc, sp, " radial period %d" % hper if hper else ""))
        if not vlib.tlc_must_hold(r, "Transfer.tla"):
            rep.violation("model:" + r.violation, "Transfer.tla: %s violated\n%s" % (r.violation, vlib.counterexample(r)[:1500]),
                          replay={"tlc": vlib.counterexample(r)[:4000]})
            continue
        tables += r.cases
    return tables


def linear_everywhere(rep, tier, inv_all, what):
    """the property demands linear reproduction on EVERY pair; on midpoint pairs it must hold, elsewhere it is the recorded finding F2"""
    nrc, ntc, sp, _hper = families(tier)[0]
    r = vlib.tlc("Transfer", cfg("transfer_linmid_%s" % inv_all, nrc, ntc, sp, True, False, inv_all), tag="trlinmid", timeout=1200)
    rep.add_tlc(r, "%s on midpoint pairs" % inv_all)
    if not vlib.tlc_must_hold(r, "Transfer.tla"):
        rep.violation("model:%s:midpoint" % inv_all, "%s fails on a midpoint pair\n%s" % (what, vlib.counterexample(r)[:1200]), replay={"tlc": vlib.counterexample(r)[:3000]})
    r = vlib.tlc("Transfer", cfg("transfer_linall_%s" % inv_all, nrc, ntc, sp, False, False, inv_all), tag="trlinall", timeout=1200)
    rep.add_tlc(r, "%s on all pairs" % inv_all)
    if not vlib.tlc_must_hold(r, "Transfer.tla"):
        rep.violation("model:%s:non-midpoint" % inv_all,
                      "%s: the weights h1*left + h2*right are attached to the wrong neighbour, so a linear function is reproduced only where the fine "
                      "node is the midpoint of its coarse neighbours. TLC counterexample: %s" % (what, vlib.counterexample(r)[:300].replace("\n", " ")),
                      replay={"tlc": vlib.counterexample(r)[:3000]})


def conformance(rep, tier, tables, ops_key):
    exe = os.path.join(vlib.build(["drv_transfer"], "gcc"), "drv_transfer")
    path = os.path.join(vlib.BUILD, "cases", "transfer_%s_%s.ndjson" % (ops_key, tier))
    os.makedirs(os.path.dirname(path), exist_ok=True)
    with open(path, "w") as f:
        for c in tables:
            f.write(json.dumps(c, separators=(",", ":")) + "\n")
            mid = all(c["h"][2 * i] == c["h"][2 * i + 1] for i in range(len(c["h"]) // 2)) and all(c["k"][2 * j] == c["k"][2 * j + 1] for j in range(len(c["k"]) // 2))
            rep.case(key=json.dumps([c["nr"], c["nt"], c["h"], c["k"]]), nontrivial=not mid)
    if tables:
        t = tables[len(tables) // 2]
        rep.sample({"nr": t["nr"], "nt": t["nt"], "h": t["h"], "k": t["k"], "P_row_example": t["P"][t["nt"] + 1], "FI_row_example": t["FI"][3 * t["nt"] + 1]})
    for threads in ((1, 4) if tier == "thorough" else (1,)):
        rc, recs, out = vlib.run_driver(exe, ["tables", path, threads], timeout=3000, env={"OMP_NUM_THREADS": str(threads)})
        summ = [x for x in recs if x.get("summary")]
        if rc != 0 or not summ:
            rep.violation("conformance:crash", "transfer driver crashed (rc=%s): %s" % (rc, out[-500:]), replay={"tables": path})
            continue
        rep.traces(summ[0]["tables"])
        rep.cov["operator_matrices_probed"] = rep.cov.get("operator_matrices_probed", 0) + summ[0]["operators_probed"]
        for x in recs:
            if x.get("fail"):
                op = x["what"].split(":")[0].split(" ")[0]
                rep.violation("conformance:%s" % op, "%s (grid %dx%d, threads %d)" % (x["what"], x["nr"], x["nt"], threads), replay=x)
    rc, recs, out = vlib.run_driver(exe, ["large", vlib.seed(), 4], timeout=1200, env={"OMP_NUM_THREADS": "4"})
    if rc != 0:
        rep.violation("large:crash", out[-400:], replay={})
    for x in recs:
        if x.get("fail"):
            rep.violation("large:%s" % x["what"].split(" ")[0], "%s (grid %dx%d above the parallel threshold, 4 threads)" % (x["what"], x["nr"], x["nt"]), replay=x)


def run_fmg_interpolation(rep, tier):
    """interpolation half of C09 (called from checks/c09.py)"""
    vlib.sany("Transfer")
    tables = model_and_tables(rep, tier, FMG_INV, "fmg")
    linear_everywhere(rep, tier, "FI_LinearFallbackAll", "FMG interpolation, linear rule on the two radial lines next to the boundaries")
    conformance(rep, tier, tables, "fmg")
    rep.cov["interpolation_half"] = "Transfer.tla: FI_* invariants on %d fine/coarse pairs; tables compared with applyFMGInterpolation" % len(tables)
