"""C16 - sparse LU solves every system with non-vanishing pivots, in any storage order.

spec/SparseLUAlg.tla transcribes factorizeWithHashing/solveInPlace over exact fractions with rows as maps
(stored zeros, fill-in, absent entries).  TLC proves A x = b for every pattern/value instance of the bounded
family and prints the solutions; the real solver is run on the same instances through all three CSR
construction paths with randomly permuted storage order inside every row.  Beyond the model: random strictly
diagonally dominant systems up to n = 300 with rows scaled over 20 orders of magnitude (backward error bound).
"""
import json
import os

import vlib

LEVEL = "model_checking"


def cfg(name, dims, fam, absent, emit):
    path = os.path.join(vlib.BUILD, "cfg", name + ".cfg")
    os.makedirs(os.path.dirname(path), exist_ok=True)
    with open(path, "w") as f:
        f.write("SPECIFICATION Spec\nCONSTANTS\n  Dims = {%s}\n  DiagVals <- %sDiag\n  OffVals <- %sOff\n  AllowAbsent = %s\n"
                "  MaxSolves = 2\n  EmitTables = %s\nINVARIANTS AlgSolves Triangular%s\n"
                % (",".join(map(str, dims)), fam, fam, "TRUE" if absent else "FALSE", "TRUE" if emit else "FALSE",
                   " Emit" if emit else ""))
    return path


def run(rep, tier):
    thorough = tier == "thorough"
    exe = os.path.join(vlib.build(["hdr_sparselu"], "asan"), "hdr_sparselu")
    vlib.sany("SparseLUAlgMC")
    rep.assumptions += [
        "duplicate (row, column) entries inside one CSR row are outside the domain (the container does not define them)",
        "instances on which the model reports a vanishing pivot are outside the property's domain",
        "real solver compared with the exact solution with tolerance 1e-10 relative (instances are small integers)",
    ]
    runs = [("S", [1, 2, 3], True)]
    if thorough:
        runs += [("Q", [1, 2, 3], True), ("S", [4], False)]
    for fam, dims, absent in runs:
        r = vlib.tlc("SparseLUAlgMC", cfg("c16_%s_%s" % (fam, "".join(map(str, dims))), dims, fam, absent, True),
                     tag="c16" + fam, timeout=3000, heap="16g")
        rep.add_tlc(r, "family %s dims %s absent=%s" % (fam, dims, absent))
        if not vlib.tlc_must_hold(r, "SparseLUAlg"):
            rep.violation("model:" + r.violation, "SparseLUAlg.tla: %s violated\n%s" % (r.violation, vlib.counterexample(r)[:3000]),
                          replay={"tlc": vlib.counterexample(r)[:6000]})
            continue
        path = os.path.join(vlib.BUILD, "cases", "c16_%s%s.ndjson" % (fam, "".join(map(str, dims))))
        os.makedirs(os.path.dirname(path), exist_ok=True)
        inst = set()
        with open(path, "w") as f:
            for c in r.cases:
                f.write(json.dumps(c, separators=(",", ":")) + "\n")
                pat = json.dumps(c["A"])
                fill = any(not cell["p"] for rw in c["A"] for cell in rw)
                rep.case(key=pat + str([s["k"] for s in c["xs"]]), nontrivial=(not c["bad"]) and c["n"] > 1)
                inst.add(pat)
        rep.cov["instances"] = rep.cov.get("instances", 0) + len(inst)
        rep.sample(r.cases[len(r.cases) // 2])
        rc, recs, out = vlib.run_driver(exe, ["tables", path, vlib.seed()], timeout=2400)
        summ = [x for x in recs if x.get("summary")]
        if rc != 0 or not summ:
            rep.violation("tables:crash", "solver crashed/exited on a model instance (rc=%s): %s" % (rc, out[-600:]), replay={"cases_file": path})
            continue
        rep.traces(summ[0]["cases"])
        rep.cov["real_solves_compared"] = rep.cov.get("real_solves_compared", 0) + summ[0]["solves"]
        for x in recs:
            if x.get("fail"):
                rep.violation("tables:n%d:%s" % (x["n"], "overload" if "overloads" in x["what"] else "value"),
                              x["what"] + " -- A=" + json.dumps(x["table"]["A"]), replay=x["table"])
    # numeric exploration; the solver calls exit() on what it considers a zero pivot: restart behind that case
    count = 3600 if thorough else 360
    start, total, worst = 0, 0, 0.0
    for _ in range(30):
        rc, recs, out = vlib.run_driver(exe, ["numeric", vlib.seed(), count, start], timeout=2400)
        summ = [x for x in recs if x.get("summary")]
        for x in recs:
            if x.get("fail"):
                rep.violation("numeric:kind%d:%s" % (x["kind"], "backward-error" if "backward" in x["what"] else "nonfinite"),
                              "%s (case %d, n=%d, seed %d)" % (x["what"], x["case"], x["n"], vlib.seed()),
                              replay={"seed": vlib.seed(), "case": x["case"]})
        if summ and rc == 0:
            total += summ[0]["cases"]
            worst = max(worst, summ[0]["worst_backward_error"])
            break
        cases = [l for l in out.splitlines() if l.startswith("@case ")]
        if not cases:
            raise vlib.HarnessError("numeric driver failed without progress: " + out[-800:])
        last = cases[-1].split()
        cur = int(last[1])
        msg = [l for l in out.splitlines() if "Zero diagonal" in l or "ERROR" in l or "runtime error" in l][:2]
        rep.violation("numeric:%s:%s" % (last[3], "exit" if any("Zero diagonal" in m for m in msg) else "crash"),
                      "solver terminated the process on a strictly diagonally dominant system (%s): %s" % (" ".join(last[1:]), " | ".join(msg)),
                      replay={"seed": vlib.seed(), "case": cur})
        total += cur - start
        start = cur + 1
    rep.cov["numeric_cases"] = total
    rep.cov["numeric_worst_componentwise_backward_error"] = worst
    rep.cov["exhaustive"] = True
    rep.cov["rule"] = ("every sparsity pattern (absent / stored zero / value per off-diagonal position) x values of the family, n<=3 "
                       "(thorough: full patterns n=4), x two solves; non-trivial = n>1 and no vanishing pivot; distinct by matrix and rhs sequence")


def replay(path):
    d = json.load(open(path))
    exe = os.path.join(vlib.build(["hdr_sparselu"], "asan"), "hdr_sparselu")
    rp = d["replay"]
    if "A" in rp:
        p = os.path.join(vlib.BUILD, "cases", "c16_replay.ndjson")
        open(p, "w").write(json.dumps(rp) + "\n")
        rc, recs, out = vlib.run_driver(exe, ["tables", p, d.get("seed", 1)])
    else:
        rc, recs, out = vlib.run_driver(exe, ["numeric", rp["seed"], rp["case"] + 1, rp["case"]])
    print(out[-2000:])
    return 1 if rc != 0 or any(r.get("fail") for r in recs) else 0
