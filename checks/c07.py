"""C07 - extrapolated smoothing relaxes fine-only nodes and never moves coarse nodes.

spec/Stencil.tla: CoarseNode, ExtrapolatedLineKinds (on a line through coarse nodes the fine-only nodes do not couple).
The harness computes from the exact table the zebra relaxation in which only fine-only nodes are unknowns; one real
extrapolated sweep (give and take) must reproduce it, must return the values at coarse nodes bit for bit, and must leave
the exact discrete solution unchanged.
"""
import vlib
import stencil_common as sc

LEVEL = "model_checking"


def run(rep, tier):
    vlib.sany("StencilMC")
    rep.assumptions += [
        "finest-level grids: odd nr, even ntheta, at least three circles and three radial nodes",
        "coarse nodes compared with memcmp; fine-only nodes with 1e-10 relative against the long double block relaxation of the table",
    ]
    tabs = sc.tables(rep, tier, "c07", "bcf")
    tabs = [t for t in tabs if t["nc"] >= 3 and t["nr"] - t["nc"] >= 3 and t["nr"] % 2 == 1]
    sc.conformance(rep, tier, tabs, "xsmoother", 200, "xsmoother", threads=(1, 3, 16) if tier == "thorough" else (1, 3), scales=(1.0, 1e-9, 1e7))
    try:
        import realgeom
        realgeom.run(rep, tier, "xsmoother")
    except ImportError:
        rep.cov["real_geometries"] = "not built yet"
    rep.cov["rule"] = "as C06 on finest-level shapes; each sampled instance swept by both strategies from a random iterate and from the exact solution"


def replay(path):
    import json
    print(json.load(open(path))["replay"])
    return 1
