"""C18 - generated grids are valid, nested and coarsenable; files round-trip.

spec/GridGen.tla transcribes constructRadialDivisions / RadialAnisotropicDivision / divideVector / the angular division
and chooseNumberOfLevels in integer units (std::set -> sets, arrays -> partial functions; any out-of-domain access,
iterator before begin()/past end(), log2 of a non-positive number = UB).  TLC proves NoUB, Valid, Nested, LevelsAdmitted
over the whole parameter box (every floor(nr*percentage), i.e. refinement radii inside and outside [R0, Rmax]) and prints
the radii; the real constructor (assertions and bounds checks on; ASan in the thorough tier) must produce exactly these
grids, reject exactly the rejected sets, and setup() must report the level count.  spec/GridLoader.tla is the token
machine of the file loader: fault sequences (missing, empty, junk token, too few / non-increasing values).
"""
import json
import os

import vlib

LEVEL = "model_checking"
TREE_FIXED_GEN = '{"F7"}'
TREE_FIXED_LOAD = '{"F10"}'


def gen_cfg(name, nrexp, aniso, div, ntexp, maxlev, emit):
    path = os.path.join(vlib.BUILD, "cfg", name + ".cfg")
    os.makedirs(os.path.dirname(path), exist_ok=True)
    open(path, "w").write("SPECIFICATION Spec\nCONSTANTS\n  NrExp = %s\n  Aniso = %s\n  DivBy2 = %s\n  NtExp = %s\n  MaxLev = %s\n  FIXED = %s\n  EmitTables = %s\n"
                          "INVARIANTS NoUB Valid Nested LevelsAdmitted%s\n" % (nrexp, aniso, div, ntexp, maxlev, TREE_FIXED_GEN,
                                                                             "TRUE" if emit else "FALSE", " Emit" if emit else ""))
    return path


def run(rep, tier):
    thorough = tier == "thorough"
    vlib.sany("GridGen")
    vlib.sany("GridLoader")
    variant = "asan" if thorough else "gcc"
    exe = os.path.join(vlib.build(["drv_gridgen"], variant), "drv_gridgen")
    rep.assumptions += [
        "floor(nr*percentage) is a model parameter; the driver realises it with refinement radius R0 + (fl+0.5)/nr*(Rmax-R0) (Rmax for fl = nr)",
        "radii compared with 1e-12 absolute, end points bitwise; R0 in {0.1, 1e-5}, Rmax = 1.3",
        "file round trip for written precisions 14, 16, 18 (below that the reloaded angles fail the constructor's own 1e3*eps validity test)",
    ]
    box = ("{2,3,4}", "{0,1,2,3}", "{0,1}", "{0,3}", "{0,2,3}")
    if thorough:
        box = ("{2,3,4,5}", "{0,1,2,3,4}", "{0,1,2}", "{0,3,5}", "{0,2,3}")      # nr_exp 6 / factor 5 did not end within the hour
    r = vlib.tlc("GridGen", gen_cfg("gridgen_" + tier, *box, True), heap="12g", stack="256m", tag="c18gen", timeout=3000, workers=8)
    rep.add_tlc(r, "GridGen.tla parameter box %s" % (box,))
    if not vlib.tlc_must_hold(r, "GridGen.tla"):
        rep.violation("model:" + r.violation, "GridGen.tla: %s violated\n%s" % (r.violation, vlib.counterexample(r)[:2000]),
                      replay={"tlc": vlib.counterexample(r)[:6000]})
    else:
        path = os.path.join(vlib.BUILD, "cases", "c18_gen_%s.ndjson" % tier)
        os.makedirs(os.path.dirname(path), exist_ok=True)
        nrej = 0
        with open(path, "w") as f:
            for c in r.cases:
                f.write(json.dumps(c, separators=(",", ":")) + "\n")
                rep.case(key=json.dumps(c["p"], sort_keys=True), nontrivial=c["p"]["a"] > 0 or c["p"]["d"] > 0)
                nrej += c["status"] == "reject"
        rep.cov["parameter_sets_rejected_by_model"] = nrej
        rep.sample({k: r.cases[len(r.cases) // 2][k] for k in ("p", "status", "r", "nt", "levels")})
        start = 0
        gen_exe = exe
        if thorough:
            # the whole box with assertions and library bounds checks; AddressSanitizer (about 20x slower on the large grids) on the part
            # of the box with nr_exp <= 4 and at most one refinement
            gen_exe = os.path.join(vlib.build(["drv_gridgen"], "gcc"), "drv_gridgen")
            small = path + ".asan"
            with open(small, "w") as f:
                for c in r.cases:
                    if c["p"]["nrexp"] <= 4 and c["p"]["d"] <= 1:
                        f.write(json.dumps(c, separators=(",", ":")) + "\n")
            rc2, recs2, out2 = vlib.run_driver(exe, ["gen", small], timeout=3000)
            if rc2 != 0 or not any(x.get("summary") for x in recs2):
                msg = [l for l in out2.splitlines() if "Assertion" in l or "ERROR" in l or "runtime error" in l][:2]
                rep.violation("gen:crash:asan", "constructor crashed under AddressSanitizer (rc=%s): %s" % (rc2, " | ".join(msg) or out2[-300:]), replay={"tables": small})
            for x in recs2:
                if x.get("fail"):
                    rep.violation("gen:asan:a%d" % min(x["p"]["a"], 1), "%s -- parameters %s (model: %s)" % (x["what"], x["p"], x["status"]), replay=x)
        rc, recs, out = vlib.run_driver(gen_exe, ["gen", path], timeout=3000)
        summ = [x for x in recs if x.get("summary")]
        if rc != 0 or not summ:
            cur = int(open(path + ".progress").read().strip() or "0")
            bad = r.cases[cur - 1]["p"] if 0 < cur <= len(r.cases) else None
            msg = [l for l in out.splitlines() if "Assertion" in l or "ERROR" in l or "runtime error" in l][:2]
            rep.violation("gen:crash:a%s" % (bad["a"] if bad else "?"), "constructor crashed (rc=%s) on parameter set %s: %s" % (rc, bad, " | ".join(msg) or out[-300:]),
                          replay={"p": bad})
        else:
            rep.traces(summ[0]["tables"])
        for x in recs:
            if x.get("fail"):
                w = x["what"]
                kind = "accepted-but-rejected" if "constructor returned" in w else "rejected-but-accepted" if "threw on an accepted" in w else \
                    "levels" if "levels" in w else "radii" if "radi" in w or "nr=" in w else "other"
                rep.violation("gen:%s:a%d" % (kind, min(x["p"]["a"], 1)), "%s -- parameters %s (model: %s)" % (w, x["p"], x["status"]), replay=x)
    # loader fault sequences
    lc = os.path.join(vlib.BUILD, "cfg", "loader_%s.cfg" % tier)
    open(lc, "w").write("SPECIFICATION Spec\nCONSTANTS\n  MaxLen = %d\n  FIXED = %s\n  EmitTables = TRUE\nINVARIANTS AcceptsOnlyWholeFiles RejectsFaults Emit\n"
                        % (5 if thorough else 4, TREE_FIXED_LOAD))
    r = vlib.tlc("GridLoader", lc, tag="c18load")
    rep.add_tlc(r, "GridLoader.tla all files up to length %d" % (5 if thorough else 4))
    if not vlib.tlc_must_hold(r, "GridLoader.tla"):
        rep.violation("model:loader:" + r.violation, vlib.counterexample(r)[:2000], replay={"tlc": vlib.counterexample(r)[:5000]})
    else:
        path = os.path.join(vlib.BUILD, "cases", "c18_load_%s.ndjson" % tier)
        with open(path, "w") as f:
            for c in r.cases:
                f.write(json.dumps(c, separators=(",", ":")) + "\n")
                rep.case(key="file:" + json.dumps([c["file"], c["missing"]]), nontrivial=len(c["file"]) >= 2)
        tmp = os.path.join(vlib.BUILD, "tmp_c18")
        os.makedirs(tmp, exist_ok=True)
        rc, recs, out = vlib.run_driver(exe, ["load", path, tmp], timeout=1200)
        if rc != 0 or not any(x.get("summary") for x in recs):
            rep.violation("load:crash", "loader driver crashed (rc=%s): %s" % (rc, out[-400:]), replay={"tables": path})
        for x in recs:
            if x.get("fail"):
                t = x["table"]
                kind = "junk" if -1 in t["file"] else "missing" if t["missing"] else "values"
                rep.violation("load:%s" % kind, "%s -- file tokens %s missing=%s" % (x["what"], t["file"], t["missing"]), replay=t)
        rc, recs, out = vlib.run_driver(exe, ["roundtrip", tmp, vlib.seed()], timeout=600)
        if rc != 0:
            rep.violation("roundtrip:crash", out[-400:], replay={})
        for x in recs:
            if x.get("fail"):
                rep.violation("roundtrip:prec%d" % x["prec"], "%s (nr_exp=%s aniso=%s divideBy2=%s R0=%s)" % (x["what"], x["nrexp"], x["a"], x["d"], x["R0"]), replay=x)
    # which user-supplied coordinate vectors are accepted (checkParameters): spec/GridValid.tla Accept <=> IdealValid, decisions vs both constructors
    vlib.sany("GridValidMC")
    vc = os.path.join(vlib.BUILD, "cfg", "gridvalid_%s.cfg" % tier)
    open(vc, "w").write("SPECIFICATION Spec\nCONSTANTS\n  Full = %d\n  RadVals <- RadValsMC\n  EmitTables = TRUE\nINVARIANTS AcceptIsValid Emit\n" % (12 if thorough else 8))
    r = vlib.tlc("GridValidMC", vc, tag="c18valid", workers=8, timeout=1500)
    rep.add_tlc(r, "GridValid.tla every angle set within one circle of %d units and its disordered variants; every short radius vector" % (12 if thorough else 8))
    if not vlib.tlc_must_hold(r, "GridValid.tla"):
        rep.violation("model:valid:" + r.violation, vlib.counterexample(r)[:2000], replay={"tlc": vlib.counterexample(r)[:5000]})
    else:
        path = os.path.join(vlib.BUILD, "cases", "c18_valid_%s.ndjson" % tier)
        nacc = 0
        with open(path, "w") as f:
            for c in r.cases:
                f.write(json.dumps(c, separators=(",", ":")) + "\n")
                nacc += c["accept"]
                rep.case(key="coords:" + json.dumps([c["rad"], c["ang"]]), nontrivial=len(c["ang"]) >= 3)
        rep.cov["coordinate_sets_accepted_by_model"] = nacc
        tmp = os.path.join(vlib.BUILD, "tmp_c18")
        os.makedirs(tmp, exist_ok=True)
        rc, recs, out = vlib.run_driver(exe, ["valid", path, tmp], timeout=1800)
        if rc != 0 or not any(x.get("summary") for x in recs):
            rep.violation("valid:crash", "constructor crashed on a coordinate set (rc=%s): %s" % (rc, out[-400:]), replay={"tables": path})
        for x in recs:
            if x.get("fail"):
                t = x["table"]
                rep.violation("valid:%s:%s" % ("accepted" if not t["accept"] else "rejected", t["why"]), "%s -- radii %s angles %s (units of 2pi/%d)" % (x["what"], t["rad"], t["ang"], t["full"]), replay=t)
    rep.cov["exhaustive"] = True
    rep.cov["rule"] = ("every (nr_exp, anisotropic_factor, floor(nr*percentage) from below 0 to above nr, divideBy2, ntheta_exp, level cap) of the box; "
                       "every token file up to the length bound; non-trivial = anisotropic or refined / at least two tokens")


def replay(path):
    print(json.load(open(path))["replay"])
    return 1
