"""C05 - the interior operator is symmetric positive definite.

Symmetry: invariant Symmetric of spec/Stencil.tla, proved by TLC exactly for every instance (non-uniform spacings,
non-zero mixed coefficients, across-origin coupling of antipodal nodes); the real operators equal the table (C03 run
repeated here on a sample).  Positive definiteness is a real-number inequality over all vectors: checked numerically
(Cholesky of the table restricted to the non-Dirichlet unknowns succeeds; exploration level) - line blocks are principal
sub-blocks and inherit both properties.
"""
import vlib
import stencil_common as sc

LEVEL = "model_checking"


def run(rep, tier):
    vlib.sany("StencilMC")
    rep.assumptions += [
        "definiteness is decided numerically (long double Cholesky) on the enumerated instances: exploration level",
        "coefficient patterns satisfy arr*att - art^2/4 = 1/4 > 0 (true Jacobians), beta >= 0",
    ]
    tabs = sc.tables(rep, tier, "c05", "a")
    sc.conformance(rep, tier, tabs, "spd", 300, "spd")
    sc.conformance(rep, tier, tabs, "residual", 60, "residual")
    try:
        import realgeom
        realgeom.run(rep, tier, "spd")
    except ImportError:
        rep.cov["real_geometries"] = "not built yet"
    rep.cov["rule"] = "as C03; symmetry exact in TLC for every instance; Cholesky on a seeded sample"


def replay(path):
    import json
    print(json.load(open(path))["replay"])
    return 1
