"""Implementation-vs-implementation runs on the shipped geometries (Circular, Shafranov, Czarny, Culham) x coefficient
profiles x boundary modes on random non-uniform two-level grids (drv_realgeom); part of C03-C07 beyond the table family:
cached vs uncached, give vs take, level 0 vs the coarse level whose cache is derived from the finer one."""
import os

import vlib


def run(rep, tier, what):
    exe = os.path.join(vlib.build(["drv_realgeom"], "gcc"), "drv_realgeom")
    count = 256 if tier == "thorough" else 32
    done = 0
    for th in ((1, 4) if tier == "thorough" else (1,)):
        rc, recs, out = vlib.run_driver(exe, [what, vlib.seed(), count, th], timeout=3000, env={"OMP_NUM_THREADS": str(th)})
        summ = [x for x in recs if x.get("summary")]
        if rc != 0 or not summ:
            msg = [l for l in out.splitlines() if "Assertion" in l or "ERROR" in l][:2]
            rep.violation("real:%s:crash" % what, "operator crashed on a shipped geometry (rc=%s): %s" % (rc, " | ".join(msg) or out[-300:]), replay={"what": what, "seed": vlib.seed()})
            continue
        done += summ[0]["cases"]
        for x in recs:
            if x.get("fail"):
                kind = x["what"].split(" at node")[0].split(" by ")[0][:50].replace(" ", "_")
                rep.violation("real:%s:%s" % (what, kind), "%s [%s] (case %d, seed %d, %d threads)" % (x["what"], x["where"], x["case"], vlib.seed(), th),
                              replay={"what": what, "seed": vlib.seed(), "case": x["case"]})
    rep.cov["real_geometries"] = "%d level-runs on Circular/Shafranov/Czarny/Culham x 7 coefficient profiles x both boundary modes (%s)" % (done, what)
    rep.cov["real_geometry_level_runs"] = done
