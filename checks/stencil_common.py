"""spec/Stencil.tla: model checking + table generation + conformance runs shared by C03-C07."""
import json
import os
import random

import vlib

INV = "DirichletIdentity StencilShape Symmetric RowSumIsMass ConstantSolutionExact SignStructure SamePhaseUncoupled OverlapUncoupled LineBlockShape ExtrapolatedLineKinds"


def families(tier, which="ab"):
    """(label, NrSet, NtSet, Sp, NcSet, Period, PaSet); which: subset of family labels used in the quick tier"""
    if tier == "thorough":       # sized so that every TLC run ends within minutes (the full cross product of the first draft did not end within the hour)
        return [("a", "{4,5}", "{4}", "{1,2}", "{0,1,2,3,4,5}", 0, "Pa6"),
                ("a2", "{5,6}", "{8}", "{1,2}", "{0,2,3,5,6}", 2, "Pa3"),
                ("b", "{7,9}", "{4,8}", "{1,2}", "{3,4,5}", 2, "Pa3"),
                ("c", "{5,7}", "{12}", "{1,3}", "{2,3}", 2, "Pa3"),
                ("e", "{5,7}", "{8}", "{1,2}", "{2,3}", 2, "Pa3"),
                ("f", "{9,11}", "{4}", "{1,2}", "{5,6,7}", 2, "Pa3")]
    fams = [("a", "{5}", "{4}", "{1,2}", "{0,2,3,5}", 0, "Pa3"),
            ("b", "{7}", "{4,8}", "{1,2}", "{3,4}", 2, "Pa3"),
            ("d", "{7}", "{4}", "{1,2}", "{3}", 2, "Pa3"),          # small family for the right-hand-side discretisation (C01)
            ("c", "{5,7}", "{12}", "{1,2}", "{2,3}", 2, "Pa3"),     # ntheta divisible by 3: the third remainder class of the 3-pass assemblies
            ("e", "{5}", "{8}", "{1,2}", "{0,2}", 2, "Pa3"),        # ntheta mod 3 = 2 (and no circle section): the two-line remainder rule of the 3-pass assemblies
            ("f", "{9}", "{4}", "{1}", "{5,6}", 2, "Pa3")]          # 5 and 6 smoother circles: the remaining residues of the stride-4 circle phases
    return [f for f in fams if f[0] in which]


def cfg(name, fam, emit, r0set="{1}"):
    label, nrs, nts, sp, ncs, period, pa = fam
    path = os.path.join(vlib.BUILD, "cfg", name + ".cfg")
    os.makedirs(os.path.dirname(path), exist_ok=True)
    open(path, "w").write("SPECIFICATION Spec\nCONSTANTS\n  NrSet = %s\n  NtSet = %s\n  Sp = %s\n  R0Set = %s\n  PaSet <- %s\n  NcSet = %s\n  Period = %d\n  EmitTables = %s\nINVARIANTS %s%s\n"
                          % (nrs, nts, sp, r0set, pa, ncs, period, "TRUE" if emit else "FALSE", INV, " Emit" if emit else ""))
    return path


def tables(rep, tier, tag, which="ab"):
    """model-check every instance of the families and return the emitted tables"""
    out = []
    for fam in families(tier, which):
        r = vlib.tlc("StencilMC", cfg("stencil_%s_%s_%s" % (tag, tier, fam[0]), fam, True, "{1,3}" if tier == "thorough" else "{1}"), heap="16g", tag="st%s%s" % (tag, fam[0]), timeout=3300)
        rep.add_tlc(r, "Stencil.tla family %s" % (fam,))
        if not vlib.tlc_must_hold(r, "Stencil.tla"):
            rep.violation("model:" + r.violation, "Stencil.tla: %s violated\n%s" % (r.violation, vlib.counterexample(r)[:1500]),
                          replay={"tlc": vlib.counterexample(r)[:4000]})
            continue
        out += r.cases
    return out


def conformance(rep, tier, tabs, what, n_quick, prop_prefix, threads=(1,), scales=(1.0,)):
    rng = random.Random(vlib.seed())
    # stratified sample: every grid-shape class (nr, ntheta, circles, boundary mode) of the families is represented - the shape
    # decides which colour phase / remainder rule / boundary case of the operators is exercised
    groups = {}
    for c in tabs:
        groups.setdefault((c["nr"], c["nt"], c["nc"], c["dir"]), []).append(c)
    for g in groups.values():
        rng.shuffle(g)
    want = n_quick if tier != "thorough" else n_quick * 12
    sel, k = [], 0
    keys = sorted(groups)
    while len(sel) < want and any(groups[g] for g in keys):
        g = keys[k % len(keys)]
        if groups[g]:
            sel.append(groups[g].pop())
        k += 1
    exe = os.path.join(vlib.build(["drv_stencil"], "gcc"), "drv_stencil")
    path = os.path.join(vlib.BUILD, "cases", "stencil_%s_%s.ndjson" % (what, tier))
    os.makedirs(os.path.dirname(path), exist_ok=True)
    with open(path, "w") as f:
        for c in sel:
            f.write(json.dumps(c, separators=(",", ":")) + "\n")
            rep.case(key=json.dumps([c["nr"], c["nt"], c["nc"], c["dir"], c["h"], c["k"], c["r0"], c["arr"][:6], c["art"][:6]]),
                     nontrivial=any(a != 0 for a in c["art"]))
    if sel:
        s = sel[0]
        rep.sample({k: s[k] for k in ("nr", "nt", "nc", "dir", "h", "k", "r0", "arr", "art", "det", "beta")} | {"row_of_node_(1,0)": s["rows"][s["nt"]], "lines": s["lines"]})
    # team sizes beyond the second one run on the first n_quick instances only (16 threads on a few dozen nodes are slow on a
    # busy machine); the scaled families run with the second team size
    small = path + ".small"
    with open(small, "w") as f:
        for c in sel[:n_quick]:
            f.write(json.dumps(c, separators=(",", ":")) + "\n")
    passes = [(th, 1.0, path if i < 2 else small) for i, th in enumerate(threads)] + [(threads[min(1, len(threads) - 1)], s, path) for s in scales if s != 1.0]
    for (th, scale, path) in passes:
        rc, recs, out = vlib.run_driver(exe, [path, what, th, repr(scale)], timeout=3300, env={"OMP_NUM_THREADS": str(th), "OMP_WAIT_POLICY": "PASSIVE"})
        summ = [x for x in recs if x.get("summary")]
        if rc != 0 or not summ:
            try:
                cur = int(open(path + "." + what + ".progress").read().strip() or "0")
            except Exception:
                cur = 0
            inst = sel[cur - 1] if 0 < cur <= len(sel) else {}
            msg = [l for l in out.splitlines() if "Assertion" in l or "ERROR" in l or "error" in l][:2]
            rep.violation("%s:crash" % prop_prefix, "operator crashed (rc=%s) on instance nr=%s nt=%s nc=%s dir=%s: %s" % (
                rc, inst.get("nr"), inst.get("nt"), inst.get("nc"), inst.get("dir"), " | ".join(msg) or out[-300:]), replay={"tables": path, "instance": cur})
            continue
        rep.traces(summ[0]["tables"])
        rep.cov["operator_runs"] = rep.cov.get("operator_runs", 0) + summ[0]["operator_runs"]
        for x in recs:
            if x.get("fail"):
                op = x["what"].split(":")[0].split(" node")[0][:40]
                rep.violation("%s:%s:%s" % (prop_prefix, op.replace(" ", "_"), "dirbc" if x["dir"] else "origin"),
                              "%s (instance nr=%d nt=%d circles=%d, threads %d%s)" % (x["what"], x["nr"], x["nt"], x["nc"], th, "" if scale == 1.0 else ", coefficients scaled by %g" % scale),
                              replay={"tables": path, "instance": x["inst"]})
    return len(sel)
