"""C13 - a solver object can be reused: results do not depend on earlier solves.

1. TLC model-checks spec/Solver.tla (code-shaped solver object + lock-step shadow of a fresh object, consistent numeric
   oracle) over ALL histories of <= MaxCalls life-cycle calls: ModeAgrees, StartIsData, StatsFresh, HistoriesOwn.
2. TLC (simulation) generates life-cycle histories; with the curated regression histories they are replayed on one
   long-lived real object (trace recorded through the guarded hooks) and on fresh objects (bitwise comparison).
3. The recorded trace must be a behaviour of the spec (TraceSolver.tla): sizes of the histories, indices of the
   reduction-factor read, smoother mode, start-up sequence and the fresh-object comparison are checked in every state.
"""
import json
import random

import vlib
import solver_common as sc

LEVEL = "model_checking"


def model_check(rep, maxcalls):
    cfg = sc.gen_cfg("solver_mc_%d" % maxcalls, maxcalls, maxiter="{0, 2}", ext="{0, 3}", misc="{0}",
                     settable='{"ext", "fmg", "L", "take", "caches", "maxIter", "absOn", "relOn", "grid"}', gen=False)
    r = vlib.tlc("Solver", cfg, heap="24g", tag="c13mc", timeout=3000)
    rep.add_tlc(r, "Solver.tla all histories <= %d calls" % maxcalls)
    if not vlib.tlc_must_hold(r, "Solver.tla"):
        return r
    return None


def report_trace_result(rep, res, prop_keys):
    """turn a trace-validation result into violations; returns True if accepted"""
    if res.get("crashed"):
        rep.violation("replay:crash", "replay driver crashed (rc=%s): %s" % (res["rc"], res["out"]), replay={"cases": res["cases_path"]})
        return False
    if res["accepted"]:
        rep.traces(1)
        rep.cov["trace_events"] = rep.cov.get("trace_events", 0) + res["events"]
        return True
    d = sc.describe_rejection(res)
    ev = json.loads(d["rejected_event"]) if d["rejected_event"] else {}
    if res["violated"] == "RhoValue":
        key = "trace:value:rho"
        what = "%s (case %s, line %s)" % (res.get("rho_value"), d["case"], d["line"])
    elif res["violated"]:
        key = "trace:invariant:%s" % res["violated"]
        what = "trace reaches a state violating %s (case %s, line %s)" % (res["violated"], d["case"], d["line"])
    else:
        key = "trace:rejected:%s" % ev.get("e")
        what = "recorded execution is not a behaviour of %s: no action accepts event %%s (case %%s, line %%s)" % ("TraceSem.tla (operator level: the recorded instructions, interpreted, do not satisfy the property evaluated at this marker)" if res.get("level") == "operators" else "Solver.tla") % (
            d["rejected_event"], d["case"], d["line"])
    rep.violation(key, what + " context=" + json.dumps(d["context"])[:1500],
                  replay={"trace": res["trace_path"], "cases": res["cases_path"], "line": d["line"], "case": d["case"]})
    return False


def run(rep, tier):
    thorough = tier == "thorough"
    vlib.sany("Solver")
    vlib.sany("TraceSolver")
    rep.assumptions += [
        "C13 domain: solve() preceded by a setup() executed with the current setup-relevant options (others: C20)",
        "numeric facts (tolerance met, factor > 0.7) are an oracle consistent per (configuration, history, iteration)",
        "fresh-object comparison is bitwise with 1 OpenMP thread",
    ]
    bad = model_check(rep, 6 if thorough else 5)
    if bad is not None:
        rep.violation("model:" + bad.violation, "Solver.tla: %s violated\n%s" % (bad.violation, vlib.counterexample(bad)[:2500]),
                      replay={"tlc": vlib.counterexample(bad)[:8000]})
    rng = random.Random(vlib.seed())
    curated = [{"ctor": c, "steps": s, "label": n} for n, c, s in sc.CURATED]
    hs = sc.generate_histories(rep, 150 if thorough else 30, 7, 400, tier)
    rng.shuffle(hs)
    hs = hs[:(120 if thorough else 14)]
    cases = sc.make_cases(curated + hs, None)
    for c in cases:
        acts = [s["a"] if s["a"] != "SetOpt" else "Set:%s=%s" % (s["name"], s["val"]) for s in c["steps"]]
        rep.case(key=json.dumps([c["ctor"], acts]), nontrivial=acts.count("Solve") >= 2)
    rep.sample({"ctor": cases[0]["ctor"], "steps": cases[0]["steps"], "base": cases[0]["base"]})
    rep.sample({"ctor": cases[-1]["ctor"], "steps": cases[-1]["steps"], "base": cases[-1]["base"]})
    # batches: one trace per batch so that a rejection does not hide the rest
    bs = 8
    for i in range(0, len(cases), bs):
        res = sc.run_and_validate(rep, cases[i:i + bs], "%s_c13_%d" % (tier, i // bs))
        report_trace_result(rep, res, None)
        if not res.get("crashed"):
            rep.add_tlc(res["tlc"], "trace batch %d" % (i // bs))
    rep.cov["rule"] = ("histories = curated regression patterns + TLC-simulated behaviours of Solver.tla; non-trivial = contains >= 2 solves; "
                       "distinct by constructor options and call sequence")


def replay(path):
    d = json.load(open(path))["replay"]
    if "trace" in d:
        res = sc.validate_trace(d["trace"], "replay")
        print("accepted" if res["accepted"] else "REJECTED", sc.describe_rejection(res) if not res["accepted"] else "")
        return 0 if res["accepted"] else 1
    print(d)
    return 1
