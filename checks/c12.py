"""C12 - results are reproducible and do not depend on the thread count.

Model level: spec/OmpRegions.tla, invariant Deterministic (WriteOrderDeterministic): in every observed region table of the
real code no two iterations that can be simultaneously active write the same cell, so the sequence of writers of every
cell is fixed by the barrier order - for a fixed code path the result cannot depend on timing or team size.  (Reductions
combine per-thread partial sums: only rounding-level differences are allowed there.)
Replay: the prediction is tested on the real solver: the solution after a fixed number of cycles is bitwise identical for
repeated runs and for all team sizes >= 2, and differs from the sequential code path (1 thread) and for other
threadReductionFactor values only at rounding level; vector kernels equal their definition below and above the 10 000
element threshold.
"""
import json
import os
import struct

import vlib
import omp_common as oc
from c11 import SHAPES

LEVEL = "model_checking"


def solver_run(exe, args, threads, trf, out):
    a = args[:]
    i = a.index("--maxOpenMPThreads")
    a[i + 1] = str(threads)
    a += ["--threadReductionFactor", str(trf)]
    rc, recs, o = vlib.run_driver(exe, ["solver", out] + a, timeout=900, env={"OMP_NUM_THREADS": str(threads), "OMP_DYNAMIC": "false"})
    if rc != 0 or not recs:
        return None, o[-400:]
    return recs[0], None


def read_vec(path):
    b = open(path, "rb").read()
    return struct.unpack("%dd" % (len(b) // 8), b)


def run(rep, tier):
    thorough = tier == "thorough"
    rep.assumptions += [
        "bitwise equality is required between repeated runs and between all team sizes >= 2 (same code path); 1 thread takes the sequential code path and "
        "threadReductionFactor changes per-level team sizes: bound 1e-10 relative after 3 cycles",
        "reductions (norms, dot product) are compared with a long double reference within n*eps*sum|terms|",
    ]
    bdir = vlib.build(["drv_omp", "drv_repro"], "gcc")
    exe = os.path.join(bdir, "drv_repro")
    # 1. write-order determinism of the observed region tables
    shapes = SHAPES[:6] if thorough else [SHAPES[2], SHAPES[4]]
    ntab = 0
    for si, sh in enumerate(shapes):
        for (m, e, f, d, th) in ([(1, 3, 1, 0, 3), (0, 1, 0, 1, 5)] if thorough else [((si + 1) % 2, 3 if si else 1, 1, si % 2, 3)]):
            label = "c12_%s_m%d_e%d" % (sh[0], m, e)
            rec, err, summ = oc.record(oc.case_args(sh, m, e, f, d, th), label, th)
            if err:
                rep.violation("record:crash", err, replay={"case": label})
                continue
            regions, ninst = oc.regions_of(rec)
            ntab += len(regions)
            rep.traces(len(regions))
            for reg, pair in oc.check_regions(rep, regions, label, invariant="Deterministic"):
                a, b, cells = pair if pair else ({}, {}, [])
                rep.violation("writeorder:%s|%s" % (reg["loops"].get(a.get("lp")), reg["loops"].get(b.get("lp"))),
                              "two iterations of one barrier epoch write %d common cell(s): the final value depends on timing (shape %s)" % (len(cells), sh[0]),
                              replay={"case": label, "region": reg["id"]})
    rep.cov["distinct_region_tables"] = ntab
    # 2. replay on the real solver
    cases = []
    for si, sh in enumerate(shapes[:(4 if thorough else 2)]):
        for (m, e, f) in ([(1, 0, 0), (0, 1, 1), (1, 3, 1)] if thorough else [((si + 1) % 2, 1 if si else 3, 1)]):
            cases.append((sh, m, e, f))
    tmp = os.path.join(vlib.BUILD, "tmp_c12")
    os.makedirs(tmp, exist_ok=True)
    teams = [1, 2, 3, 4, 7, 16, 32] if thorough else [1, 2, 3, 16]
    for (sh, m, e, f) in cases:
        args = oc.case_args(sh, m, e, f, 0, 2, caches=(0, 0) if m == 1 else (1, 1))     # give: also the uncached code branches
        args[args.index("--maxIterations") + 1] = "3"
        res = {}
        for T in teams:
            for rerun in (0, 1):
                out = os.path.join(tmp, "u_%s_%d_%d.bin" % (sh[0], T, rerun))
                r, err = solver_run(exe, args, T, 1.0, out)
                if err:
                    rep.violation("replay:crash", "solver run failed (T=%d): %s" % (T, err), replay={"shape": sh[0]})
                    continue
                res[(T, rerun)] = (r["hash"], out, r["max"])
                rep.case(key="%s m%d e%d f%d T%d run%d" % (sh[0], m, e, f, T, rerun), nontrivial=T > 1)
        for T in teams:
            if (T, 0) in res and (T, 1) in res and res[(T, 0)][0] != res[(T, 1)][0]:
                rep.violation("replay:rerun:T%s" % ("1" if T == 1 else ">=2"), "two runs with %d threads give different solutions (shape %s, method %d, ext %d)" % (T, sh[0], m, e), replay={"shape": sh[0], "T": T})
        par = [T for T in teams if T >= 2 and (T, 0) in res]
        for T in par[1:]:
            if res[(T, 0)][0] != res[(par[0], 0)][0]:
                rep.violation("replay:teamsize", "solutions with %d and %d threads differ bitwise (shape %s, method %d, ext %d)" % (par[0], T, sh[0], m, e), replay={"shape": sh[0]})
        if (1, 0) in res and par:
            a, b = read_vec(res[(1, 0)][1]), read_vec(res[(par[0], 0)][1])
            diff = max(abs(x - y) for x, y in zip(a, b))
            rep.cov["max_rel_diff_T1_vs_parallel"] = max(rep.cov.get("max_rel_diff_T1_vs_parallel", 0.0), diff / max(1e-300, res[(1, 0)][2]))
            if not diff <= 1e-10 * res[(1, 0)][2]:
                rep.violation("replay:sequential-vs-parallel", "1 thread vs %d threads differ by %.3e (max |u| %.3e): more than re-association" % (par[0], diff, res[(1, 0)][2]), replay={"shape": sh[0]})
        # per-level thread reduction
        out = os.path.join(tmp, "u_%s_trf.bin" % sh[0])
        r, err = solver_run(exe, args, 4, 0.5, out)
        if not err and (4, 0) in res:
            a, b = read_vec(out), read_vec(res[(4, 0)][1])
            diff = max(abs(x - y) for x, y in zip(a, b))
            if not diff <= 1e-10 * res[(4, 0)][2]:
                rep.violation("replay:threadReductionFactor", "threadReductionFactor 0.5 changes the solution by %.3e" % diff, replay={"shape": sh[0]})
    rep.sample({"shape": cases[0][0][0], "teams": teams, "args": oc.case_args(cases[0][0], cases[0][1], cases[0][2], cases[0][3], 0, 2)[:20]})
    # 2b. every operator alone (finest-level residual, smoothers, coarsest direct solve, all transfers between level 0 and 1, extrapolated
    #     residual, rhs build) below AND above the 10 000-node threshold at which the transfers and vector kernels become parallel
    big = [("s129x96", 129, 96, 5)] + ([("s161x128", 161, 128, 6)] if thorough else [])
    opcases = [(big[0], 1, 1), (big[0], 0, 3), (SHAPES[3], 0, 1)] + ([(b, m, e) for b in big[1:] for (m, e) in ((1, 3), (0, 1))] + [(SHAPES[5], 1, 2)] if thorough else [])
    opteams = [1, 2, 3, 8, 32] if thorough else [1, 2, 5]
    nopc = 0
    for (sh, m, e) in opcases:
        args = oc.case_args(sh, m, e, 0, 0, 2)
        runs = {}
        for T in opteams:
            for rerun in ((0, 1) if T == opteams[1] else (0,)):
                out = os.path.join(tmp, "ops_%s_%d_%d_%d_%d.bin" % (sh[0], m, e, T, rerun))
                a = args[:]
                a[a.index("--maxOpenMPThreads") + 1] = str(T)
                rc, recs, o = vlib.run_driver(exe, ["operators", out] + a, timeout=900, env={"OMP_NUM_THREADS": str(T), "OMP_DYNAMIC": "false"})
                if rc != 0 or not recs:
                    rep.violation("operators:crash", "operator run failed (T=%d, shape %s): %s" % (T, sh[0], o[-300:]), replay={"shape": sh[0], "T": T})
                    continue
                runs[(T, rerun)] = (recs[0]["ops"], out)
                rep.case(key="ops %s m%d e%d T%d run%d" % (sh[0], m, e, T, rerun), nontrivial=T > 1)
        par = [T for T in opteams if T >= 2 and (T, 0) in runs]
        if not par or (1, 0) not in runs:
            continue
        ref_ops, ref_file = runs[(par[0], 0)]
        seq = read_vec(runs[(1, 0)][1])
        refv = read_vec(ref_file)
        off = 0
        for k, opr in enumerate(ref_ops):
            name, n = opr["op"], opr["n"]
            nopc += 1
            for key, (ops_k, _f) in runs.items():
                if key[0] >= 2 and ops_k[k]["hash"] != opr["hash"]:
                    kind = "rerun" if key[0] == par[0] else "teamsize"
                    rep.violation("operators:%s:%s" % (kind, name), "%s: output with %d threads%s differs bitwise from the output with %d threads (shape %s, %d nodes, method %d, ext %d)"
                                  % (name, key[0], " (second run)" if key[1] else "", par[0], sh[0], sh[1] * sh[2], m, e), replay={"shape": sh[0], "op": name, "T": key[0]})
                    break
            a, b = seq[off:off + n], refv[off:off + n]
            scale = max([abs(x) for x in a if x == x] + [1e-300])
            bad = [i for i in range(n) if not (abs(a[i] - b[i]) <= 1e-10 * scale)]
            if bad:
                rep.violation("operators:sequential-vs-parallel:%s" % name, "%s: 1 thread vs %d threads differ in %d of %d entries (first at %d: %r vs %r; shape %s, %d nodes, method %d, ext %d)"
                              % (name, par[0], len(bad), n, bad[0], a[bad[0]], b[bad[0]], sh[0], sh[1] * sh[2], m, e), replay={"shape": sh[0], "op": name})
            off += n
    rep.cov["operator_outputs_compared"] = nopc
    # 3. vector kernels
    for T in ([1, 2, 5, 16, 32] if thorough else [1, 4]):
        rc, recs, o = vlib.run_driver(exe, ["kernels", vlib.seed(), T], timeout=600, env={"OMP_NUM_THREADS": str(T)})
        if rc != 0:
            rep.violation("kernels:crash", o[-300:], replay={})
        for x in recs:
            if x.get("fail"):
                rep.violation("kernels:%s" % x["what"], "%s differs from its definition (n=%d, %d threads)" % (x["what"], x["n"], x["threads"]), replay=x)
            if x.get("summary"):
                rep.cov["kernel_cases"] = rep.cov.get("kernel_cases", 0) + x["cases"]
    rep.cov["rule"] = "cases = solver runs (shape x strategy x extrapolation x team size x repetition); non-trivial = more than one thread"


def replay(path):
    print(json.load(open(path))["replay"])
    return 1
