"""C01 - solve() converges, and a reported convergence is true.

Second half (a reported stop is true): StopTruth is an invariant of spec/Solver.tla (TLC, exhaustive): the loop is left
early only on the tolerance test of the norm of the CURRENT iterate, and nothing modifies the iterate afterwards.  Every
real solve is recorded (hooks) and validated against TraceSolver.tla: the stop decision must equal the documented rule
evaluated EXACTLY on the logged IEEE-754 bit patterns, and the residual recomputed by an independently set-up object
(other stencil strategy) from solution() must meet the tolerance.
First half (it converges, rho < 1) is numerics: the trace spec requires, for every TLC-generated configuration inside
the supported set (spec/OptionSpace.tla, Mode "c01"), a stop on the tolerance before the budget with rho < 1
(exploration level).
"""
import json
import os
import random

import vlib
import solver_common as sc
from c13 import report_trace_result

LEVEL = "model_checking"


def to_case(i, cs):
    c = cs["cfg"]
    g = c["geometry"]
    base = ["--geometry", g, "--problem", c["problem"], "--alpha_coeff", c["alpha"], "--beta_coeff", c["beta"],
            "--kappa_eps", "0.0" if g == 0 else "0.3", "--delta_e", "1.4" if g == 2 else ("0.2" if g == 1 else "0.0"),
            "--alpha_jump", "0.66", "--R0", "1e-5", "--Rmax", "1.3", "--verbose", 0, "--DirBC_Interior", c["DirBC"],
            "--nr_exp", c["nr_exp"], "--ntheta_exp", -1 if c["ntheta_exp"] == 0 else c["ntheta_exp"],
            "--anisotropic_factor", 0, "--divideBy2", c["divideBy2"], "--maxOpenMPThreads", c["threads"]]
    misc = 1000 + c["cycle"] + 3 * ((c["pre"] - 1) + 2 * ((c["post"] - 1) + 2 * (c["norm"] + 3 * (c["fmgIts"] + 4 * c["fmgCycle"]))))
    ctor = dict(ext=c["ext"], fmg=bool(c["fmg"]), L=cs["levels"], take=(c["method"] == 0), caches=(bool(c["cacheDG"]) if c["cacheDG"] == c["cacheDP"] else (2 if c["cacheDP"] else 3)),
                maxIter=c["maxIter"], absOn=bool(c["absOn"]), relOn=bool(c["relOn"]), exact=True, misc=misc, grid=0)
    return {"id": i, "base": [str(x) for x in base], "ctor": ctor, "steps": [sc.SETUP, sc.SOLVE], "c01": 1 if cs["rate"] else 0}


def pairwise_pick(cases, n):
    """the sample that is actually run: greedy pairwise coverage over the factors of a configuration (every pair of option values
    that occurs in the generated walks is run at least once if the budget allows), then the shuffled rest"""
    if len(cases) <= n:
        return cases

    def factors(c):
        o, b = c["ctor"], c["base"]
        f = {"ext": o["ext"], "fmg": o["fmg"], "L": o["L"], "take": o["take"], "caches": str(o["caches"]), "misc": o["misc"] % 3, "abs": o["absOn"], "rel": o["relOn"]}
        for k in ("--geometry", "--alpha_coeff", "--beta_coeff", "--DirBC_Interior", "--nr_exp", "--ntheta_exp"):
            f[k] = b[b.index(k) + 1]
        return sorted(f.items())

    def pairs(c):
        fs = factors(c)
        return {(fs[i], fs[j]) for i in range(len(fs)) for j in range(i + 1, len(fs))}
    covered, picked, rest = set(), [], list(cases)
    ps = {id(c): pairs(c) for c in rest}
    while rest and len(picked) < n:
        best = max(rest, key=lambda c: len(ps[id(c)] - covered))      # ties: first in the shuffled order
        if not ps[id(best)] - covered:
            break
        picked.append(best)
        covered |= ps[id(best)]
        rest.remove(best)
    return picked + rest[:n - len(picked)]


def run(rep, tier):
    thorough = tier == "thorough"
    vlib.sany("Solver")
    vlib.sany("TraceSolver")
    vlib.sany("OptionSpace")
    rep.assumptions += [
        "contraction (rho < 1, stop before the budget) is decided by running the real solver on sampled configurations: exploration level",
        "independent residual: second object with the other stencil strategy; threshold = tolerance*1.001 + 1e-9*(1 + initial residual)",
        "tolerances used: absolute 1e-7, relative 1e-6; budget 150 iterations",
        "anisotropic grids are exercised by C18's generator; here uniform grids 17x32 .. 33x64",
    ]
    cfg = sc.gen_cfg("solver_mc_c01", 5, maxiter="{0, 2}", ext="{0, 3}", misc="{0}",
                     settable='{"ext", "fmg", "L", "maxIter", "absOn", "relOn"}', gen=False)
    r = vlib.tlc("Solver", cfg, heap="24g", tag="c01mc", timeout=3000)
    rep.add_tlc(r, "Solver.tla all histories <= 5 calls (StopTruth)")
    if not vlib.tlc_must_hold(r, "Solver.tla"):
        rep.violation("model:" + r.violation, vlib.counterexample(r)[:2500], replay={"tlc": vlib.counterexample(r)[:8000]})
    cases, seen = [], set()
    for depth, num in ((3, 60 if thorough else 12), (8, 600 if thorough else 40), (14, 500 if thorough else 30)):
        c = os.path.join(vlib.BUILD, "cfg", "os_c01_%d.cfg" % depth)
        open(c, "w").write('SPECIFICATION Spec\nCONSTANTS\n  Depth = %d\n  Mode = "c01"\nINVARIANTS RuleSound Emit\n' % depth)
        g = vlib.tlc("OptionSpace", c, simulate=num, depth=depth + 1, workers=2, tag="c01opt%d" % depth)
        if g.rc != 0:
            raise vlib.HarnessError("OptionSpace generation failed:\n" + g.out[-2000:])
        rep.add_tlc(g, "OptionSpace (c01) walk depth %d" % depth)
        for cs in g.cases:
            k = json.dumps(cs["cfg"], sort_keys=True)
            if k not in seen and cs["outcome"] == "Runs":
                seen.add(k)
                cases.append(to_case(len(cases) + 1, cs))
    rng = random.Random(vlib.seed())
    rng.shuffle(cases)
    cases = pairwise_pick(cases, 600 if thorough else 40)
    for i, c in enumerate(cases):
        c["id"] = i + 1
        rep.case(key=json.dumps([c["base"], c["ctor"]], sort_keys=True), nontrivial=True)
    rep.sample({"base": cases[0]["base"], "ctor": cases[0]["ctor"], "rate_required": cases[0]["c01"]})
    rep.sample({"base": cases[-1]["base"], "ctor": cases[-1]["ctor"], "rate_required": cases[-1]["c01"]})
    bs = 12
    for i in range(0, len(cases), bs):
        res = sc.run_and_validate(rep, cases[i:i + bs], "%s_c01_%d" % (tier, i // bs))
        ok = report_trace_result(rep, res, None)
        if not res.get("crashed"):
            rep.add_tlc(res["tlc"], "trace batch %d" % (i // bs))
    # the discrete system itself: right-hand side = source term x quadrature weight (Dirichlet nodes: boundary data), on the
    # finest and on the coarse level, cached and uncached geometry - Stencil.tla RhsWeight / CoarseRhsWeight / ConstantSolutionExact
    import stencil_common as stc
    vlib.sany("StencilMC")
    tabs = stc.tables(rep, tier, "c01rhs", "d" if not thorough else "ab")
    stc.conformance(rep, tier, tabs, "rhs", 48, "rhs", threads=(1, 3))
    rep.cov["rule"] = ("configurations = TLC random walks (depth 3/8/14) through OptionSpace.tla restricted to C01's supported set; each is one "
                       "setup()+solve() trace validated against TraceSolver.tla incl. the C01 obligations; distinct by full option record")


def replay(path):
    d = json.load(open(path))["replay"]
    if "trace" in d:
        res = sc.validate_trace(d["trace"], "replay")
        print("accepted" if res["accepted"] else "REJECTED", sc.describe_rejection(res) if not res["accepted"] else "")
        return 0 if res["accepted"] else 1
    print(d)
    return 1
