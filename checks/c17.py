"""C17 - grid node numbering is a bijection consistent with geometry and periodicity.

spec/PolarGridSpec.tla transcribes index/fastIndex/multiIndex/wrapThetaIndex/neighbours/spacings/line splitting/coarsening
with C++ integer semantics as a state machine over the coarsening chain.  TLC proves the twelve invariants for every small
grid (every nr, every even ntheta - power of two or not -, every explicit splitting radius, the automatic split) and prints
the tables; the real PolarGrid is constructed for the same instances and compared entry by entry.
"""
import json
import os

import vlib

LEVEL = "model_checking"
INV = "Bijection InverseA InverseB FastIsRef WrapPeriodic Partition LineMajor NeighboursConsistent SpacingsConsistent Antipodal AutoSplitAssumptions CoarsenKeeps CacheDerivation"


def cfg(name, nrs, nts, uniform, emit, spacing="{1,2,3}"):
    path = os.path.join(vlib.BUILD, "cfg", name + ".cfg")
    os.makedirs(os.path.dirname(path), exist_ok=True)
    open(path, "w").write("SPECIFICATION Spec\nCONSTANTS\n  NrSet = %s\n  NtSet = %s\n  SpacingSet = %s\n  Uniform = %s\n  EmitTables = %s\nINVARIANTS %s%s\n"
                          % (nrs, nts, spacing, "TRUE" if uniform else "FALSE", "TRUE" if emit else "FALSE", INV, " Emit" if emit else ""))
    return path


def run(rep, tier):
    thorough = tier == "thorough"
    vlib.sany("PolarGridSpec")
    exe = os.path.join(vlib.build(["drv_grid"], "gcc"), "drv_grid")
    rep.assumptions += [
        "coordinates are integers in the model; the driver scales them (unit 0.1, 2*pi/M) - index logic does not depend on coordinates",
        "the bit-mask wrap is modelled as mathematical modulus; the real mask is exercised by the driver for offsets -3nt..3nt",
        "automatic split: pi bracketed by 333/106 < pi < 355/113 (instances falling in the gap are skipped, none for these sizes)",
    ]
    runs = [("u", "{2,3,4,5,6,7,9}", "{2,4,6,8,12,16}", True, "{1,3}"), ("n", "{3,5}", "{4,8}", False, "{1,3}")]
    if thorough:     # sized so that every run ends within minutes (3^(nr-1+nt) spacing patterns for the non-uniform families)
        runs = [("u", "{2,3,4,5,6,7,8,9,11,13,17}", "{2,4,6,8,10,12,16,20,24,32}", True, "{1,2,3}"), ("n", "{3,4,5}", "{4}", False, "{1,2,3}"),
                ("n2", "{5,7}", "{8}", False, "{1,3}"), ("n3", "{3}", "{12}", False, "{1,3}")]
    for tag, nrs, nts, uni, spacing in runs:
        r = vlib.tlc("PolarGridSpec", cfg("grid_%s_%s" % (tier, tag), nrs, nts, uni, True, spacing), heap="12g", tag="c17" + tag, timeout=3000, workers=8)
        rep.add_tlc(r, "grids nr in %s nt in %s uniform=%s" % (nrs, nts, uni))
        if not vlib.tlc_must_hold(r, "PolarGridSpec"):
            rep.violation("model:" + r.violation, "PolarGridSpec.tla: %s violated\n%s" % (r.violation, vlib.counterexample(r)[:2500]),
                          replay={"tlc": vlib.counterexample(r)[:8000]})
            continue
        path = os.path.join(vlib.BUILD, "cases", "c17_%s_%s.ndjson" % (tier, tag))
        os.makedirs(os.path.dirname(path), exist_ok=True)
        with open(path, "w") as f:
            for c in r.cases:
                f.write(json.dumps(c, separators=(",", ":")) + "\n")
                rep.case(key=json.dumps([c["nr"], c["nt"], c["nc"], c["auto"], c["rad"], c["ang"]]), nontrivial=c["nr"] * c["nt"] > 4)
        rep.sample({k: r.cases[len(r.cases) // 2][k] for k in ("nr", "nt", "nc", "auto", "rad", "ang", "multi")})
        tmp = os.path.join(vlib.BUILD, "tmp_c17")
        os.makedirs(tmp, exist_ok=True)
        rc, recs, out = vlib.run_driver(exe, [path, "grid", tmp], timeout=2400)
        summ = [x for x in recs if x.get("summary")]
        if rc != 0 or not summ:
            rep.violation("driver:crash", "grid driver crashed (rc=%s): %s" % (rc, out[-600:]), replay={"tables": path})
            continue
        rep.traces(summ[0]["tables"])
        rep.cov["real_grids_constructed"] = rep.cov.get("real_grids_constructed", 0) + summ[0]["grids"]
        rep.cov["grids_through_file_constructor"] = rep.cov.get("grids_through_file_constructor", 0) + summ[0].get("file_grids", 0)
        for x in recs:
            if x.get("fail"):
                what = x["what"]
                kind = what.split("(")[0].split(" ")[0].split("=")[0]
                rep.violation("grid:%s:%s" % (kind, "pow2" if (x["nt"] & (x["nt"] - 1)) == 0 else "npow2"),
                              "%s on grid nr=%d nt=%d nc=%d auto=%s" % (what, x["nr"], x["nt"], x["nc"], x["auto"]), replay=x)
    # the parametric constructor (uniform / anisotropic division, divideBy2 refinement) is a third construction path: every
    # query of its grid agrees with its own coordinates and with a twin built through the vector constructor
    ppath = os.path.join(vlib.BUILD, "cases", "c17_%s_param.ndjson" % tier)
    params = []
    for nrexp in ((2, 3, 4, 5) if thorough else (2, 3, 4)):
        for a in range(0, nrexp + (1 if thorough else 0)):
            for d in ((0, 1, 2, 3) if thorough else (0, 1, 2)):
                for ntexp in ((-1, 2, 3, 5) if thorough else (-1, 3)):
                    for (R0, rr) in ((1e-5, 0.66), (0.1, 1.3), (0.3, 0.3)):
                        for split in (-1.0, 0.7):
                            if nrexp + d <= 6:
                                params.append({"R0": R0, "R": 1.3, "nrexp": nrexp, "ntexp": ntexp, "rr": rr, "a": a, "d": d, "split": split})
    with open(ppath, "w") as f:
        for q in params:
            f.write(json.dumps(q) + "\n")
    rc, recs, out = vlib.run_driver(exe, [ppath, "param"], timeout=2400)
    summ = [x for x in recs if x.get("summary")]
    if rc != 0 or not summ:
        rep.violation("driver:crash:param", "grid driver crashed on the parametric constructor (rc=%s): %s" % (rc, out[-600:]), replay={"params": ppath})
    else:
        rep.cov["grids_through_parametric_constructor"] = summ[0]["param_grids"]
        for x in recs:
            if x.get("fail") and not x["what"].startswith("constructor threw"):      # which parameter sets are accepted is C18's question
                rep.violation("grid:param:%s" % x["what"].split("(")[0].split(" ")[0].split("=")[0], "%s on the grid of the parametric constructor %s" % (x["what"], json.dumps(x["param"])), replay=x)
            rep.case(key="param", nontrivial=True) if False else None
    rep.cov["exhaustive"] = True
    rep.cov["rule"] = ("every grid of the initial family and of its coarsening chain is one instance (state of the TLC run): sizes x every "
                       "explicit split x automatic split (x spacings in {1,2,3} for the non-uniform family); non-trivial = more than 4 nodes")


def replay(path):
    print(json.load(open(path))["replay"])
    return 1
