"""C04 - the coarse-grid direct solve inverts exactly the operator the residual applies.

The exact stencil table of spec/Stencil.tla (TLC: shape, Dirichlet rows, symmetry) is the operator; both direct solvers
(give and take assembly + sparse LU) are run on the same instances with unit, random and huge-dynamic-range right-hand
sides, and the solution's residual with respect to the TABLE must vanish to rounding relative to the size of the terms.
"""
import vlib
import stencil_common as sc

LEVEL = "model_checking"


def run(rep, tier):
    vlib.sany("StencilMC")
    rep.assumptions += [
        "residual measured componentwise: |b - A x|_i <= 1e-11 * (|A||x| + |b|)_i with A the exact table",
        "instances down to the smallest grids the hierarchy produces (nr = 5, ntheta = 4); larger grids with fill-in: real-geometry run",
    ]
    tabs = sc.tables(rep, tier, "c04", "ace")
    sc.conformance(rep, tier, tabs, "direct", 200, "direct", threads=(1, 3, 16) if tier == "thorough" else (1, 3), scales=(1.0, 1e-9, 1e-13, 1e7))
    try:
        import realgeom
        realgeom.run(rep, tier, "direct")
    except ImportError:
        rep.cov["real_geometries"] = "not built yet"
    rep.cov["rule"] = "as C03; each sampled instance solved with both assembly strategies and three kinds of right-hand side"


def replay(path):
    import json
    print(json.load(open(path))["replay"])
    return 1
