"""C08 - grid transfer: restriction = prolongation^T, interpolation is exact and convex.

spec/Transfer.tla gives the weight tables of P, P_ex, FI exactly (rationals) and TLC proves on every fine/coarse pair of
the bounded family: coarse values copied, weights >= 0 summing to 1, constants and linear functions reproduced.  R and
R_ex are the transposes BY DEFINITION; the real operators - reference and optimised versions of P, P_ex, R, R_ex, the
injection and the FMG interpolation - are probed with unit vectors for several circle/radial splits of both levels and
every matrix entry must equal the table (so restriction is the exact transpose, optimised = reference, Inj o P = Id).
Linear reproduction on non-midpoint pairs is the recorded finding F2 (see known_findings.json).
"""
import vlib
import transfer_common as tc

LEVEL = "model_checking"


def run(rep, tier):
    vlib.sany("Transfer")
    rep.assumptions += [
        "restriction is specified as the transpose of the prolongation table; the code's restriction is bound to it entry by entry",
        "integer spacings in {1,2} ({1,2,3} thorough); the driver scales them; entries compared with 1e-13 relative",
        "extrapolated prolongation is required to reproduce linear functions on midpoint pairs (it is only applied between level 0 and 1)",
    ]
    tables = tc.model_and_tables(rep, tier, tc.BASE_INV, "base")
    tc.linear_everywhere(rep, tier, "P_LinearAll", "standard prolongation/restriction")
    tc.conformance(rep, tier, tables, "base")
    rep.cov["exhaustive"] = True
    rep.cov["rule"] = ("every fine/coarse pair with the given numbers of coarse radii/angles and fine spacings; non-trivial = some fine node is "
                       "not the midpoint of its coarse neighbours; each pair probed with 10 operators x rotating circle/radial splits")


def replay(path):
    import json
    print(json.load(open(path))["replay"])
    return 1
