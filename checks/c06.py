"""C06 - smoothing is an exact zebra line relaxation of the same operator.

spec/Stencil.tla: line partition (circles / radial lines), colours (outermost circle black), sweep order, and TLC-proved
structure: lines relaxed simultaneously are uncoupled (SamePhaseUncoupled), white circles and black radial lines may
overlap (OverlapUncoupled), line blocks are (cyclic) tridiagonal.  From the exact table and that order the harness
computes the exact block relaxation with dense solves; one real sweep (give and take) from a random iterate, and from
the exact discrete solution (fixed point), must reproduce it - which implies zero residual on the colour updated last and
boundary data on Dirichlet nodes.
"""
import vlib
import stencil_common as sc

LEVEL = "model_checking"


def run(rep, tier):
    vlib.sany("StencilMC")
    rep.assumptions += [
        "smoothing levels: at least two circles and three radial nodes per line (SmootherDomain)",
        "expected sweep computed in long double from the table; comparison 1e-10 relative to the largest entry of the result",
        "energy-norm monotonicity: measured with the exact table on the second and third sweep of every sampled instance (exploration level)",
    ]
    tabs = sc.tables(rep, tier, "c06", "abcef")
    tabs = [t for t in tabs if t["nc"] >= 2 and t["nr"] - t["nc"] >= 3]
    sc.conformance(rep, tier, tabs, "smoother", 200, "smoother", threads=(1, 3, 16) if tier == "thorough" else (1, 3), scales=(1.0, 1e-9, 1e7))
    try:
        import realgeom
        realgeom.run(rep, tier, "smoother")
    except ImportError:
        rep.cov["real_geometries"] = "not built yet"
    rep.cov["rule"] = "as C03, restricted to smoothing-level splits; each sampled instance swept by both strategies from a random iterate and from the exact solution"


def replay(path):
    import json
    print(json.load(open(path))["replay"])
    return 1
