"""C11 - no data race in any parallel region, for any thread count or schedule.

Design level: spec/OmpModel.tla is the interleaving semantics of an OpenMP parallel region (team, work-sharing loops,
nowait, barriers; any thread may take any iteration); TLC explores all schedules of small regions and checks that the
closed form EpochDisjoint is sound (ClosedFormSound, ActiveShareEpoch).
Code level: the real library is run (whole setup()+solve(), every region instance it executes) under the access
recorder: guarded hooks report every work-sharing-loop iteration and every element access, libgomp's GOMP_parallel /
GOMP_barrier are interposed to observe region instances and barrier epochs.  The observed table of each region - per
iteration: epoch, read cells, written cells (footprints are functions of the iteration, not of the schedule) - is
model-checked by TLC (spec/OmpRegions.tla, RaceFree): two iterations that some schedule can run simultaneously never
touch the same cell unless both only read.  Small observed tables are additionally run through the interleaving model.
Intended schedule: spec/ZebraSchedule.tla writes the schedules of ResidualGive::computeResidual and SmootherTake::smoothing
as formulas in the grid shape; TLC proves EpochDisjoint / AllRadialOnce / AllCirclesOnce for every shape class (696 shapes,
also the ones no run builds) and emits the intended per-iteration footprints; the operators are run alone on harness-owned
levels and their observed tables must be contained in the intended ones (same loops, iteration ids, epochs; footprints inside).
"""
import json
import os
import random

import vlib
import omp_common as oc

LEVEL = "model_checking"

# (tag, nr, ntheta, seed); the automatic split gives 3, 3, 5, 4, 8 | 7, 5, 3, 3 smoother circles: all residues mod 2, 3, 4; ntheta mod 3 in {0,1,2}
SHAPES = [("s9x8", 9, 8, 1), ("s9x12", 9, 12, 2), ("s13x24", 13, 24, 11), ("s17x48", 17, 48, 10), ("s21x40", 21, 40, 12),
          ("s25x32", 25, 32, 13), ("s13x32", 13, 32, 8), ("s11x20", 11, 20, 4), ("s13x16", 13, 16, 3)]


def toy_instances(rng, n):
    out = []
    for _ in range(n):
        nl = rng.randint(2, 4)
        loops = []
        for _l in range(nl):
            tasks = []
            for _t in range(rng.randint(1, 3)):
                w = rng.sample(range(1, 7), rng.randint(0, 2))
                r = rng.sample(range(1, 7), rng.randint(0, 2))
                tasks.append({"r": r, "w": w})
            loops.append({"nowait": rng.randint(0, 1), "tasks": tasks})
        out.append({"threads": rng.choice([2, 3]), "loops": loops})
    return out


def run(rep, tier):
    thorough = tier == "thorough"
    vlib.sany("OmpModel")
    rep.assumptions += [
        "an element counts as WRITTEN by an iteration if it was reached through a non-const accessor and its value changed, or lies in a kernel range declared written (solveInPlace arguments, cache arrays); every touched element counts as read",
        "footprints and epochs are recorded from one execution; they are functions of the iteration (no data-dependent addressing in the loops)",
        "region instances and barriers observed by interposing libgomp (GOMP_parallel, GOMP_barrier); MUMPS-only code and the unreachable task variants are out of scope",
    ]
    rng = random.Random(vlib.seed())
    # 1. interleaving semantics: closed form sound on random small regions (all schedules)
    cfgp = os.path.join(vlib.BUILD, "cfg", "ompmodel_sound.cfg")
    os.makedirs(os.path.dirname(cfgp), exist_ok=True)
    open(cfgp, "w").write("SPECIFICATION Spec\nINVARIANTS ClosedFormSound ActiveShareEpoch\n")
    cfgr = os.path.join(vlib.BUILD, "cfg", "ompmodel_norace.cfg")
    open(cfgr, "w").write("SPECIFICATION Spec\nINVARIANTS NoRace\n")
    agree = 0
    for i, inst in enumerate(toy_instances(rng, 30 if thorough else 8)):
        p = os.path.join(vlib.BUILD, "cases", "omptoy_%d.json" % i)
        os.makedirs(os.path.dirname(p), exist_ok=True)
        json.dump(inst, open(p, "w"))
        t = vlib.tlc("OmpModel", cfgp, env={"OMPINST": p}, workers=4, tag="omptoy", timeout=600)
        rep.add_tlc(t, "OmpModel toy %d (all schedules)" % i)
        if t.rc != 0:
            if t.rc == 12:
                rep.violation("model:" + t.violation, "OmpModel.tla: %s violated on %s" % (t.violation, json.dumps(inst)), replay={"inst": inst})
            else:
                raise vlib.HarnessError("OmpModel failed:\n" + t.out[-1500:])
        else:
            agree += 1
    rep.cov["closed_form_checked_on_random_regions"] = agree
    # 2. observed tables of the real code
    runs = []
    combos = [(1, 1, 1, 0), (0, 3, 0, 1), (1, 3, 1, 1), (0, 1, 1, 0), (1, 0, 0, 0), (0, 0, 1, 1), (1, 2, 0, 0)]   # (method, ext, fmg, dirbc)
    shapes = SHAPES if thorough else SHAPES[:5]
    k = 0
    for si, sh in enumerate(shapes):
        for ci in range(len(combos) if thorough else 2):
            m, e, f, d = combos[(si + ci) % len(combos)]
            th = [2, 3, 5, 16][(si + ci) % 4] if thorough else [3, 2, 5][(si + ci) % 3]
            # the give strategy also runs with the geometry and / or the coefficients evaluated on the fly (separate code branches)
            caches = [(1, 1), (0, 0), (1, 0), (0, 1)][k % 4] if m == 1 else (1, 1)
            runs.append((sh, m, e, f, d, th, k % 3, caches))
            k += 1
    if not thorough:      # one more give run, so that the quick tier sees every cache variant
        runs += [(SHAPES[1], 1, 1, 1, 0, 3, 0, (0, 0)), (SHAPES[3], 1, 0, 0, 1, 2, 1, (1, 0)), (SHAPES[0], 1, 3, 0, 0, 5, 2, (0, 1))]
    nreg_total, small = 0, []
    for (sh, m, e, f, d, th, cyc, caches) in runs:
        label = "%s_m%d_e%d_f%d_d%d_t%d_c%d%d" % (sh[0], m, e, f, d, th, caches[0], caches[1])
        rec, err, summ = oc.record(oc.case_args(sh, m, e, f, d, th, cycle=cyc, caches=caches), label, th)
        if err:
            rep.violation("record:crash", err + " case " + label, replay={"case": label})
            continue
        regions, ninst = oc.regions_of(rec)
        nreg_total += ninst
        rep.case(key=label, nontrivial=True)
        rep.traces(len(regions))
        rep.cov.setdefault("distinct_region_tables", 0)
        rep.cov["distinct_region_tables"] += len(regions)
        for reg, pair in oc.check_regions(rep, regions, label):
            a, b, cells = pair if pair else ({}, {}, [])
            la, lb = reg["loops"].get(a.get("lp")), reg["loops"].get(b.get("lp"))
            rep.violation("race:%s|%s" % (la, lb),
                          "iterations %s#%s and %s#%s lie in the same barrier epoch %s of one parallel region and touch %d common cell(s) with at least one "
                          "write: some schedule runs them on two threads at once (shape %s, %d circles, options method=%d ext=%d fmg=%d dirbc=%d)"
                          % (la, a.get("it"), lb, b.get("it"), a.get("ep"), len(cells), sh[0], summ["circles"], m, e, f, d),
                          replay={"case": label, "region": reg["id"], "a": a, "b": b})
        small += [r for r in regions if len(r["its"]) <= 8 and len(set(t["lp"] for t in r["its"])) >= 1][:2]
        if len(rep.cov["samples"]) < 2 and regions:
            r0 = max(regions, key=lambda r: len(set(t["ep"] for t in r["its"])))
            rep.sample({"case": label, "region": r0["id"], "loops": r0["loops"], "iterations": len(r0["its"]),
                        "epochs": sorted(set(t["ep"] for t in r0["its"])), "first_iteration": r0["its"][0]})
    rep.cov["region_instances_observed"] = nreg_total
    # 3. small observed tables through the interleaving model itself (2 threads)
    done = 0
    for r in small[:(12 if thorough else 4)]:
        loops = {}
        order = []
        for t in r["its"]:
            key = (t["ep"], t["lp"])
            if key not in loops:
                loops[key] = []
                order.append(key)
            loops[key].append({"r": t["r"], "w": t["w"]})
        inst = {"threads": 2, "loops": []}
        for idx, key in enumerate(order):
            nxt = order[idx + 1] if idx + 1 < len(order) else None
            inst["loops"].append({"nowait": 1 if (nxt and nxt[0] == key[0]) else 0, "tasks": loops[key]})
        p = os.path.join(vlib.BUILD, "cases", "ompobs_%d.json" % done)
        json.dump(inst, open(p, "w"))
        t = vlib.tlc("OmpModel", cfgr, env={"OMPINST": p}, workers=4, tag="ompobs", timeout=600)
        rep.add_tlc(t, "OmpModel NoRace on an observed table (%d iterations, all schedules of 2 threads)" % len(r["its"]))
        if t.rc == 12:
            rep.violation("race:interleaving:%s" % "|".join(sorted(set(r["loops"].values()))), "the interleaving model finds a schedule with two conflicting iterations active", replay={"inst": inst})
        elif t.rc != 0:
            raise vlib.HarnessError("OmpModel failed:\n" + t.out[-1500:])
        done += 1
    rep.cov["observed_tables_through_interleaving_model"] = done
    # 4. the intended schedules (formulas in the shape) hold for every shape class; the real operators stay inside them
    vlib.sany("ZebraSchedule")
    zcfg = os.path.join(vlib.BUILD, "cfg", "zebra_%s.cfg" % tier)
    znr, znt = ("{5,6,7,8,9,10,11,12,13,14}", "{4,6,8,10,12,14,16,18,20,24,28,32,36,40}") if thorough else ("{5,6,7,8,9,10,12}", "{4,6,8,10,12,16,20,24}")
    open(zcfg, "w").write('SPECIFICATION Spec\nCONSTANTS\n  NrSet = %s\n  NtSet = %s\n  Ops = {"residualGive", "smootherTake", "xsmootherTake", "residualTake", "smootherGive", "xsmootherGive", "directGiveAsm", "smootherGiveAsm", "xsmootherGiveAsm"}\n  EmitTables = FALSE\n  FIXED = {"F19", "F21"}\n'
                          'INVARIANTS EpochDisjoint AllRadialOnce AllCirclesOnce GiveSolvesOnce\n' % (znr, znt))
    z = vlib.tlc("ZebraSchedule", zcfg, workers=8, heap="8g", tag="zebra", timeout=3000)
    rep.add_tlc(z, "ZebraSchedule.tla (9 operators): EpochDisjoint, AllRadialOnce, AllCirclesOnce, GiveSolvesOnce for every shape nr in %s, ntheta in %s, 2..9 circles, both boundary modes" % (znr, znt))
    if z.rc == 12:
        rep.violation("model:Zebra:" + z.violation, "ZebraSchedule.tla: %s violated\n%s" % (z.violation, vlib.counterexample(z)[:1200]), replay={"spec": "ZebraSchedule"})
    elif z.rc != 0:
        raise vlib.HarnessError("ZebraSchedule failed:\n" + z.out[-1500:])
    # 4b. every operator with an intended schedule, run ALONE on many small shapes: the verdict is race freedom of the observed
    #     tables (TLC, OmpRegions RaceFree); containment in the intended tables is the binding of ZebraSchedule.tla - a mismatch
    #     that is not a race (an added barrier, a restructured loop) is recorded as model drift, not as a violation
    contain_shapes = [(9, 12, 4, 0), (9, 12, 5, 1), (8, 8, 3, 0), (10, 16, 6, 0), (10, 16, 7, 1)]
    if thorough:
        contain_shapes += [(12, 20, 9, 0), (12, 20, 2, 1), (7, 4, 3, 0), (9, 12, 6, 1), (8, 8, 5, 1), (12, 8, 8, 0), (10, 16, 2, 0)]
        race_shapes = [(nr, nt, nc, d) for nr in (7, 8, 9, 10, 11, 12, 13) for nt in (4, 6, 8, 10, 12, 14, 16, 20, 24) for nc in range(0, 14) if nc <= nr for d in (0, 1)]
    else:
        race_shapes = [(7, 4, 2, 0), (7, 6, 3, 1), (7, 8, 4, 0), (8, 6, 5, 0), (9, 8, 6, 1), (10, 12, 7, 0), (12, 8, 8, 1), (12, 10, 9, 0),
                       (9, 16, 3, 0), (10, 4, 5, 1), (12, 20, 4, 0), (9, 10, 2, 1),
                       (7, 8, 0, 0), (8, 6, 0, 0), (9, 12, 1, 0), (7, 8, 0, 1), (10, 16, 0, 0), (7, 8, 7, 0), (8, 6, 7, 1), (9, 12, 7, 0)]      # no / one circle, no / short radial section: residuals and direct solvers only
    race_shapes = list(dict.fromkeys(contain_shapes + race_shapes))
    tabs, err = oc.intended_tables(rep, contain_shapes)
    if err:
        rep.violation("model:Zebra:emit", err, replay={"spec": "ZebraSchedule"})
        tabs = {}
    nops, drift, batch = 0, [], []

    def flush(batch):
        regs = [r for (_sh, rs) in batch for r in rs]
        for reg, pair in oc.check_regions(rep, regs, "ops"):
            a, b, cells = pair if pair else ({}, {}, [])
            la, lb = reg["loops"].get(a.get("lp")), reg["loops"].get(b.get("lp"))
            sh = reg["shape"]
            rep.violation("race:%s|%s" % (la, lb),
                          "operator run alone on a %dx%d grid with %d circles (dirbc=%d): iterations %s#%s and %s#%s lie in the same barrier epoch %s of one "
                          "parallel region and touch %d common cell(s) with at least one write" % (sh[0], sh[1], sh[2], sh[3], la, a.get("it"), lb, b.get("it"), a.get("ep"), len(cells)),
                          replay={"ops_shape": list(sh), "region": reg["id"], "a": a, "b": b})
    for i, sh in enumerate(race_shapes):
        nr, nt, nc, d = sh
        rec, err = oc.record_ops(nr, nt, nc, d, [3, 2, 5][i % 3])
        if err:
            rep.violation("schedule:crash", err, replay={"shape": list(sh)})
            continue
        regions, _n = oc.regions_of(rec)
        for r in regions:
            r["id"] = i * 1000 + r["id"]
            r["shape"] = sh
        batch.append((sh, regions))
        rep.case(key="ops_%dx%d_c%d_d%d" % sh, nontrivial=True)
        if sh in contain_shapes and tabs:
            obs, err = oc.observe_ops(nr, nt, nc, d, 0, rec=rec)
            for op in oc.ZEBRA_OPS:
                if op in ("xsmootherTake", "xsmootherGive", "xsmootherGiveAsm") and not (nr % 2 == 1 and nt % 4 == 0 and nc >= 3):
                    continue
                if op in ("smootherTake", "smootherGive", "smootherGiveAsm") and nc < 2:
                    continue      # the extrapolated smoother exists only on grids that have a coarse grid
                why = oc.contained(obs.get(op, []), tabs[(op, nr, nt, nc, bool(d))])
                nops += 1
                if why:
                    drift.append("%s %dx%d c%d d%d: %s" % (op, nr, nt, nc, d, why))
        if len(batch) >= 40:
            flush(batch)
            batch = []
    if batch:
        flush(batch)
    rep.cov["operators_contained_in_intended_schedule"] = nops - len(drift)
    rep.cov["single_operator_shapes_observed"] = len(race_shapes)
    if drift:
        rep.cov["schedule_model_drift"] = drift[:20]
        print("NOTE C11: ZebraSchedule.tla no longer describes the code (not a violation by itself; the observed tables were judged instead): " + "; ".join(drift[:3]))
    rep.cov["rule"] = ("each case = one whole setup()+solve() of the real library on a grid-shape class (number of circles mod 2,3,4; ntheta mod 3 and 4) x "
                       "strategy x extrapolation x FMG x boundary mode x team size; every distinct region table is one TLC state")


def replay(path):
    print(json.dumps(json.load(open(path))["replay"])[:3000])
    return 1
